#!/bin/bash
# usage: try_mutant.sh <patch.diff> <PROP> [PROP...]
# applies the patch to /repo, runs the named quick checks, reverts. Prints one line per check.
patch=$(realpath "$1"); shift
# one user of /repo at a time
exec 9>/verif/scratch/repo.lock
flock 9
cd /repo || exit 2
if ! git diff --quiet; then echo "/repo has uncommitted changes"; exit 2; fi
git apply "$patch" || { echo "patch does not apply"; exit 2; }
trap 'git -C /repo checkout -q -- .' EXIT
cd /verif
for p in "$@"; do
  s=$(date +%s.%N)
  ./check $p > /verif/scratch/mut-$p.log 2>&1; rc=$?
  e=$(date +%s.%N)
  printf "%s %s rc=%d violations=%d wall=%.1fs first: %s\n" "$(basename $(dirname $patch))/$(basename $patch)" $p $rc $(grep -c '^VIOLATION' /verif/scratch/mut-$p.log) $(echo "$e - $s" | bc) "$(grep -A1 '^VIOLATION' /verif/scratch/mut-$p.log | sed -n 2p | cut -c1-220)"
done
