//! Command line: run single configurations, property config sets (sharded), replays.
use crate::configs::{self, Tier};
use crate::harness::*;
use crate::ops::*;
use orx_verif_shim as sh;
use sh::{Config, Explorer, Outcome, SpinMode};
use std::collections::{BTreeMap, BTreeSet};
use std::time::{Duration, Instant};

#[derive(Clone, Debug)]
pub struct RunOpts {
    pub bound: Option<usize>,
    pub cache: bool,
    pub spin: SpinMode,
    pub freeze: Option<(usize, u32)>,
    pub max_states: u64,
    pub max_secs: f64,
    /// hangs are expected (non-vacuity runs of the freeze adversary on the blocking wrapper)
    pub expect_hang: bool,
}
impl Default for RunOpts {
    fn default() -> Self {
        RunOpts { bound: None, cache: true, spin: SpinMode::Conservative, freeze: None, max_states: 3_000_000, max_secs: 120.0, expect_hang: false }
    }
}
impl RunOpts {
    pub fn cli(&self) -> String {
        let mut s = String::new();
        if let Some(b) = self.bound {
            s.push_str(&format!(" --bound {b}"));
        }
        if !self.cache {
            s.push_str(" --nocache");
        }
        if self.spin == SpinMode::Fast {
            s.push_str(" --fastspin");
        }
        if let Some((t, k)) = self.freeze {
            s.push_str(&format!(" --freeze {t}:{k}"));
        }
        s
    }
}

#[derive(Clone, Debug)]
pub struct VRec {
    pub count: u64,
    pub msg: String,
    pub schedule: Vec<usize>,
}

pub struct CfgResult {
    pub cfg: SysCfg,
    pub opts: RunOpts,
    pub stats: sh::Stats,
    pub outcomes: BTreeSet<u64>,
    pub viols: BTreeMap<(String, String), VRec>,
    pub hang_execs: u64,
    pub secs: f64,
    pub sample_outcome: Option<String>,
}

fn h64(s: &str) -> u64 {
    let mut h = 0xcbf29ce484222325u64;
    for b in s.bytes() {
        h ^= b as u64;
        h = h.wrapping_mul(0x100000001b3);
    }
    h
}

pub fn engine_config(cfg: &SysCfg, o: &RunOpts) -> Config {
    let mut c = Config::new(cfg.plans.len());
    c.bound = o.bound;
    c.cache = o.cache;
    c.spin = o.spin;
    c.freeze = o.freeze;
    c.max_states = o.max_states;
    c.deadline = Some(Instant::now() + Duration::from_secs_f64(o.max_secs));
    c.quiescent = Some(quiescent_fn());
    c
}

pub fn run_cfg(cfg: &SysCfg, o: &RunOpts) -> CfgResult {
    let start = Instant::now();
    let mut ex = Explorer::new(engine_config(cfg, o));
    let mut outcomes = BTreeSet::new();
    let mut viols: BTreeMap<(String, String), VRec> = BTreeMap::new();
    let mut hang_execs = 0u64;
    let mut sample = None;
    let setup = || make_system(cfg);
    ex.explore(&setup, &mut |r| {
        if let Some(s) = &r.outcome_str {
            if sample.is_none() {
                sample = Some(s.clone());
            }
            outcomes.insert(h64(s));
        }
        if matches!(r.outcome, Outcome::Hang(_)) {
            hang_execs += 1;
        }
        let mut vs: Vec<sh::Violation> = r.violations.clone();
        if cfg.has_foreach() {
            // for_each / fold running on a racy wrapped iterator: "exactly once" cannot be promised either
            for v in r.violations.iter().filter(|v| v.prop == "C07") {
                let mut w = v.clone();
                w.prop = "C12".to_string();
                w.msg = format!("[{}] {}", cfg.cli(), w.msg);
                vs.push(w);
            }
        }
        for v in &vs {
            if o.expect_hang && v.class == "hang" {
                continue;
            }
            let e = viols.entry((v.prop.clone(), v.class.clone())).or_insert_with(|| VRec { count: 0, msg: v.msg.clone(), schedule: r.schedule.clone() });
            e.count += 1;
            // prefer the shortest schedule as the replay artefact
            if r.schedule.len() < e.schedule.len() {
                e.schedule = r.schedule.clone();
                e.msg = v.msg.clone();
            }
        }
    });
    CfgResult { cfg: cfg.clone(), opts: o.clone(), stats: ex.stats.clone(), outcomes, viols, hang_execs, secs: start.elapsed().as_secs_f64(), sample_outcome: sample }
}

fn arg<'a>(args: &'a [String], name: &str) -> Option<&'a str> {
    args.iter().position(|a| a == name).and_then(|i| args.get(i + 1)).map(|s| s.as_str())
}
fn flag(args: &[String], name: &str) -> bool {
    args.iter().any(|a| a == name)
}

pub fn parse_cfg(args: &[String]) -> Result<(SysCfg, RunOpts), String> {
    let kind = K::parse(arg(args, "--kind").ok_or("--kind")?)?;
    let len: usize = arg(args, "--len").ok_or("--len")?.parse().map_err(|_| "len")?;
    let plans = parse_plans(arg(args, "--plans").ok_or("--plans")?)?;
    let fin = Final::parse(arg(args, "--final").unwrap_or("drop"))?;
    let fault = Fault::parse(arg(args, "--fault").unwrap_or("none"))?;
    let mut o = RunOpts::default();
    if let Some(b) = arg(args, "--bound") {
        o.bound = Some(b.parse().map_err(|_| "bound")?);
    }
    if flag(args, "--nocache") {
        o.cache = false;
    }
    if flag(args, "--fastspin") {
        o.spin = SpinMode::Fast;
    }
    if let Some(f) = arg(args, "--freeze") {
        let (t, k) = f.split_once(':').ok_or("freeze")?;
        o.freeze = Some((t.parse().map_err(|_| "freeze")?, k.parse().map_err(|_| "freeze")?));
    }
    if let Some(s) = arg(args, "--max-secs") {
        o.max_secs = s.parse().map_err(|_| "max-secs")?;
    }
    Ok((SysCfg { kind, len, plans, fin, fault }, o))
}

pub fn print_result(r: &CfgResult) {
    println!(
        "cfg {}{}: executions={} complete={} states={} transitions={} pruned={} hangs={} outcomes={} waited={} max_pre={} capped={} in {:.3}s",
        r.cfg.cli(),
        r.opts.cli(),
        r.stats.executions,
        r.stats.complete_executions,
        r.stats.states,
        r.stats.transitions,
        r.stats.pruned,
        r.stats.hangs,
        r.outcomes.len(),
        r.stats.waited_execs,
        r.stats.max_preemptions,
        r.stats.capped,
        r.secs
    );
    for ((p, c), v) in &r.viols {
        println!("  VIOL {p}/{c} x{}: {} schedule={:?}", v.count, v.msg, v.schedule);
    }
}

// ---- attribution of fatal signals (a mutated subject may read or free wild memory)
static CTX_BUF: [std::sync::atomic::AtomicU8; 600] = [const { std::sync::atomic::AtomicU8::new(0) }; 600];
static CTX_LEN: std::sync::atomic::AtomicUsize = std::sync::atomic::AtomicUsize::new(0);

fn set_context(s: &str) {
    use std::sync::atomic::Ordering::Relaxed;
    let b = s.as_bytes();
    let n = b.len().min(600);
    for (i, x) in b.iter().take(n).enumerate() {
        CTX_BUF[i].store(*x, Relaxed);
    }
    CTX_LEN.store(n, Relaxed);
    sh::set_abort_context(s.to_string());
}

extern "C" fn on_fatal_signal(sig: libc::c_int) {
    use std::sync::atomic::Ordering::Relaxed;
    // async-signal-safe: write(2) + _exit only
    let mut buf = [0u8; 700];
    let mut n = 0;
    for &b in b"\nE1-ABORT-MARK " {
        buf[n] = b;
        n += 1;
    }
    let l = CTX_LEN.load(Relaxed).min(600);
    for i in 0..l {
        buf[n] = CTX_BUF[i].load(Relaxed);
        n += 1;
    }
    for &b in b"\tpanic=fatal signal " {
        buf[n] = b;
        n += 1;
    }
    buf[n] = b'0' + (sig / 10) as u8;
    buf[n + 1] = b'0' + (sig % 10) as u8;
    buf[n + 2] = b'\n';
    n += 3;
    unsafe {
        libc::write(2, buf.as_ptr() as *const libc::c_void, n);
        libc::_exit(70);
    }
}

fn install_signal_handlers() {
    unsafe {
        for s in [libc::SIGSEGV, libc::SIGBUS, libc::SIGILL, libc::SIGFPE, libc::SIGABRT] {
            libc::signal(s, on_fatal_signal as *const () as usize);
        }
    }
}

pub fn main(args: &[String]) -> i32 {
    sh::warmup();
    install_signal_handlers();
    match args.first().map(|s| s.as_str()) {
        Some("one") => match parse_cfg(&args[1..]) {
            Ok((cfg, o)) => {
                let r = run_cfg(&cfg, &o);
                print_result(&r);
                if r.viols.is_empty() {
                    0
                } else {
                    1
                }
            }
            Err(e) => {
                eprintln!("bad arguments: {e}");
                2
            }
        },
        Some("prop") => prop_cmd(&args[1..]),
        Some("replay") => replay_cmd(&args[1..]),
        Some("selftest") => selftest_cmd(&args[1..]),
        Some("count") => {
            let prop = arg(args, "--prop").unwrap_or("C01");
            let tier = if arg(args, "--tier") == Some("thorough") { Tier::Thorough } else { Tier::Quick };
            let l = configs::for_property(prop, tier);
            println!("{}", l.len());
            if flag(args, "--list") {
                for (c, o) in &l {
                    println!("{}{}", c.cli(), o.cli());
                }
            }
            0
        }
        _ => {
            eprintln!("usage: conc one --kind K --len N --plans 'P|P' [--final F] [--fault F] [--bound B] [--nocache] [--fastspin] [--freeze t:k]");
            2
        }
    }
}

pub fn jstr(s: &str) -> String {
    let mut o = String::with_capacity(s.len() + 2);
    o.push('"');
    for c in s.chars() {
        match c {
            '"' => o.push_str("\\\""),
            '\\' => o.push_str("\\\\"),
            '\n' => o.push_str("\\n"),
            '\t' => o.push_str("\\t"),
            c if (c as u32) < 0x20 => o.push_str(&format!("\\u{:04x}", c as u32)),
            c => o.push(c),
        }
    }
    o.push('"');
    o
}

/// `prop --prop C01 --tier quick --shard i/n --out file [--seed s] [--budget-secs x]`
fn prop_cmd(args: &[String]) -> i32 {
    let prop = arg(args, "--prop").unwrap_or("C01").to_string();
    let tier = if arg(args, "--tier") == Some("thorough") { Tier::Thorough } else { Tier::Quick };
    let (si, sn) = arg(args, "--shard").and_then(|s| s.split_once('/')).map(|(a, b)| (a.parse::<usize>().unwrap_or(0), b.parse::<usize>().unwrap_or(1))).unwrap_or((0, 1));
    let seed: u64 = arg(args, "--seed").and_then(|s| s.parse().ok()).unwrap_or(0);
    let out = arg(args, "--out");
    let max_secs: Option<f64> = arg(args, "--cfg-max-secs").and_then(|s| s.parse().ok());
    let emit = arg(args, "--emit-outcomes");
    let skip_idx: Vec<usize> = arg(args, "--skip-idx").unwrap_or("").split(',').filter_map(|x| x.parse().ok()).collect();
    let mut emitted = String::new();
    let list = configs::for_property(&prop, tier);
    let total = list.len();
    let start = Instant::now();
    let mut agg = sh::Stats::default();
    let mut n = 0u64;
    let mut nontrivial = 0u64;
    let mut outcomes_total = 0u64;
    let mut nontrivial_outcomes = 0u64;
    let mut hang_execs = 0u64;
    let mut expect_hang_cfgs = 0u64;
    let mut expect_hang_seen = 0u64;
    let mut capped: Vec<String> = vec![];
    let mut viols: Vec<String> = vec![];
    let mut samples: Vec<String> = vec![];
    let mut engine_errors: Vec<String> = vec![];
    let mut slowest: (f64, String) = (0.0, String::new());
    for (i, (cfg, o)) in list.iter().enumerate() {
        // the seed only permutes the distribution of configurations over shards
        if (i as u64).wrapping_add(seed) as usize % sn != si {
            continue;
        }
        if skip_idx.contains(&i) {
            continue;
        }
        set_context(&format!("idx={i}\tcli={}{}", cfg.cli(), o.cli()));
        let mut o = o.clone();
        if let Some(m) = max_secs {
            o.max_secs = m;
        }
        let r = run_cfg(cfg, &o);
        n += 1;
        agg.executions += r.stats.executions;
        agg.complete_executions += r.stats.complete_executions;
        agg.states += r.stats.states;
        agg.transitions += r.stats.transitions;
        agg.pruned += r.stats.pruned;
        agg.waited_execs += r.stats.waited_execs;
        agg.max_depth = agg.max_depth.max(r.stats.max_depth);
        agg.max_preemptions = agg.max_preemptions.max(r.stats.max_preemptions);
        hang_execs += r.hang_execs;
        if r.outcomes.len() > 1 {
            nontrivial += 1;
            nontrivial_outcomes += r.outcomes.len() as u64;
        }
        outcomes_total += r.outcomes.len() as u64;
        let cli = format!("{}{}", cfg.cli(), o.cli());
        if emit.is_some() {
            let oc: Vec<String> = r.outcomes.iter().map(|h| format!("{h:016x}")).collect();
            let vc: Vec<String> = r.viols.keys().map(|(p, c)| format!("{p}/{c}")).collect();
            emitted.push_str(&format!("{cli}\t{}\t{}\t{}\n", oc.join(","), vc.join(","), r.stats.capped));
        }
        if r.stats.capped {
            capped.push(cli.clone());
        }
        if r.stats.spin_assumption_failed {
            engine_errors.push(format!("SPIN assumption failed (a blocked thread left its cycle) in {cli}"));
        }
        if o.expect_hang {
            expect_hang_cfgs += 1;
            if r.hang_execs > 0 {
                expect_hang_seen += 1;
            }
        }
        if r.secs > slowest.0 {
            slowest = (r.secs, cli.clone());
        }
        if samples.len() < 4 && (r.outcomes.len() > 1 || samples.is_empty()) {
            samples.push(format!(
                "{{\"config\":{},\"executions\":{},\"states\":{},\"transitions\":{},\"distinct_outcomes\":{},\"one_outcome\":{}}}",
                jstr(&cli),
                r.stats.executions,
                r.stats.states,
                r.stats.transitions,
                r.outcomes.len(),
                jstr(r.sample_outcome.as_deref().unwrap_or(""))
            ));
        }
        for ((p, c), v) in &r.viols {
            let sched: Vec<String> = v.schedule.iter().map(|x| x.to_string()).collect();
            viols.push(format!(
                "{{\"prop\":{},\"class\":{},\"count\":{},\"msg\":{},\"cli\":{},\"kind\":{},\"schedule\":{}}}",
                jstr(p),
                jstr(c),
                v.count,
                jstr(&v.msg),
                jstr(&cli),
                jstr(cfg.kind.name()),
                jstr(&sched.join(","))
            ));
        }
    }
    let json = format!(
        "{{\"prop\":{},\"tier\":{},\"shard\":[{},{}],\"configs_total\":{},\"configs\":{},\"executions\":{},\"complete_executions\":{},\"states\":{},\"transitions\":{},\"pruned\":{},\"waited_execs\":{},\"hang_execs\":{},\"max_depth\":{},\"max_preemptions\":{},\"nontrivial_configs\":{},\"distinct_outcomes\":{},\"nontrivial_outcomes\":{},\"expect_hang_configs\":{},\"expect_hang_seen\":{},\"capped\":[{}],\"engine_errors\":[{}],\"samples\":[{}],\"violations\":[{}],\"slowest\":{},\"slowest_secs\":{:.3},\"secs\":{:.3}}}",
        jstr(&prop),
        jstr(if tier == Tier::Quick { "quick" } else { "thorough" }),
        si,
        sn,
        total,
        n,
        agg.executions,
        agg.complete_executions,
        agg.states,
        agg.transitions,
        agg.pruned,
        agg.waited_execs,
        hang_execs,
        agg.max_depth,
        agg.max_preemptions,
        nontrivial,
        outcomes_total,
        nontrivial_outcomes,
        expect_hang_cfgs,
        expect_hang_seen,
        capped.iter().map(|c| jstr(c)).collect::<Vec<_>>().join(","),
        engine_errors.iter().map(|c| jstr(c)).collect::<Vec<_>>().join(","),
        samples.join(","),
        viols.join(","),
        jstr(&slowest.1),
        slowest.0,
        start.elapsed().as_secs_f64()
    );
    if let Some(path) = emit {
        let path = format!("{path}.{si}");
        if let Err(e) = std::fs::write(&path, &emitted) {
            eprintln!("cannot write {path}: {e}");
            return 2;
        }
    }
    match out {
        Some(path) => {
            if let Err(e) = std::fs::write(path, &json) {
                eprintln!("cannot write {path}: {e}");
                return 2;
            }
        }
        None => println!("{json}"),
    }
    0
}

/// `replay <config args> --schedule 0,1,1,0 --expect PROP/CLASS`: re-executes one schedule twice
/// (determinism check) and re-evaluates the oracles. exit 1 if the expected violation reproduces.
fn replay_cmd(args: &[String]) -> i32 {
    let (cfg, o) = match parse_cfg(args) {
        Ok(x) => x,
        Err(e) => {
            eprintln!("bad arguments: {e}");
            return 2;
        }
    };
    let schedule: Vec<usize> = arg(args, "--schedule").unwrap_or("").split(',').filter(|s| !s.is_empty()).map(|s| s.parse().unwrap_or(0)).collect();
    let mut runs = vec![];
    for _ in 0..2 {
        let mut ex = Explorer::new(engine_config(&cfg, &o));
        let setup = || make_system(&cfg);
        match ex.replay(&setup, &schedule) {
            Ok(r) => runs.push(r),
            Err(e) => {
                println!("REPLAY-DIVERGED {e}");
                return 2;
            }
        }
    }
    let t = |r: &sh::RunReport| format!("{:?}", r.trace.iter().map(|s| (s.tid, s.kind, s.loc, s.val)).collect::<Vec<_>>());
    if t(&runs[0]) != t(&runs[1]) {
        println!("NONDETERMINISTIC replay: traces differ");
        return 2;
    }
    let r = &runs[0];
    println!("config: {}{}", cfg.cli(), o.cli());
    println!("schedule: {:?}", r.schedule);
    println!("outcome: {:?}  {}", r.outcome, r.outcome_str.clone().unwrap_or_default());
    println!("trace (thread, op, location, value):");
    for st in &r.trace {
        println!("  t{} {:?} loc{} val={}", st.tid, st.kind, st.loc, st.val);
    }
    let want = arg(args, "--expect");
    let mut hit = false;
    for v in &r.violations {
        println!("VIOLATION-REPRODUCED {}/{}: {}", v.prop, v.class, v.msg);
        if want.map_or(true, |w| w == format!("{}/{}", v.prop, v.class)) {
            hit = true;
        }
    }
    if hit {
        1
    } else {
        println!("no violation on this schedule");
        0
    }
}

/// Engine self-test: on small systems the stateful exploration (exact state matching), the plain stateless
/// exploration of every interleaving, and the canonicalising spin mode must produce the same outcome sets and
/// the same violation classes; two runs of the same exploration must produce identical statistics.
fn selftest_cmd(args: &[String]) -> i32 {
    let (si, sn) = arg(args, "--shard").and_then(|s| s.split_once('/')).map(|(a, b)| (a.parse::<usize>().unwrap_or(0), b.parse::<usize>().unwrap_or(1))).unwrap_or((0, 1));
    let list = configs::for_property("selftest", Tier::Quick);
    let mut bad = 0;
    let mut n = 0;
    let mut stateless_done = 0;
    for (i, (cfg, _)) in list.iter().enumerate() {
        if i % sn != si {
            continue;
        }
        n += 1;
        let a = run_cfg(cfg, &RunOpts::default());
        let a2 = run_cfg(cfg, &RunOpts::default());
        if a.stats.executions != a2.stats.executions || a.stats.states != a2.stats.states || a.stats.transitions != a2.stats.transitions || a.outcomes != a2.outcomes {
            println!("SELFTEST-FAIL nondeterministic exploration of {}", cfg.cli());
            bad += 1;
        }
        let f = run_cfg(cfg, &RunOpts { spin: SpinMode::Fast, ..RunOpts::default() });
        let keys = |r: &CfgResult| r.viols.keys().cloned().collect::<Vec<_>>();
        if f.outcomes != a.outcomes || keys(&f) != keys(&a) {
            println!("SELFTEST-FAIL spin modes disagree on {}: {} vs {} outcomes", cfg.cli(), a.outcomes.len(), f.outcomes.len());
            bad += 1;
        }
        // stateless exploration of every interleaving is only affordable for the small systems
        let mut ex = Explorer::new({
            let mut c = engine_config(cfg, &RunOpts { cache: false, ..RunOpts::default() });
            c.max_executions = 400_000;
            c
        });
        let mut outcomes = BTreeSet::new();
        let mut vk: BTreeSet<(String, String)> = BTreeSet::new();
        let setup = || make_system(cfg);
        ex.explore(&setup, &mut |r| {
            if let Some(s) = &r.outcome_str {
                outcomes.insert(h64(s));
            }
            for v in &r.violations {
                vk.insert((v.prop.clone(), v.class.clone()));
            }
        });
        if !ex.stats.capped {
            stateless_done += 1;
            let ak: BTreeSet<(String, String)> = a.viols.keys().cloned().collect();
            if outcomes != a.outcomes || vk != ak {
                println!("SELFTEST-FAIL stateful and stateless exploration disagree on {}: {} vs {} outcomes, violations {:?} vs {:?}", cfg.cli(), a.outcomes.len(), outcomes.len(), ak, vk);
                bad += 1;
            }
        }
    }
    println!("selftest shard {si}/{sn}: {n} systems, {stateless_done} also explored without state matching, {bad} disagreements");
    if bad == 0 {
        0
    } else {
        2
    }
}
