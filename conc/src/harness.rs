//! Generic concurrent harness: closes a system (one shared iterator + per-thread operation plans),
//! records every public call and evaluates the oracles of DESIGN.md §5 online and at the end.
use crate::elem::{self, key_of, ledger, ledger_reset, pos_of, Elem, Obs};
use crate::ops::*;
use crate::probe::{self, Hint, Probe, ProbeRef, CELL_SLOT0};
use orx_concurrent_iter::*;
use orx_verif_shim as sh;
use sh::{CallInfo, ExecResult, Outcome, System, MAXT};
use std::cell::{Cell, RefCell};
use std::rc::Rc;

#[derive(Clone, Copy, Debug, PartialEq, Eq, Hash, PartialOrd, Ord)]
pub enum K {
    Slice,
    VecRef,
    Vec,
    Array,
    Range,
    IterExact,
    IterUnk,
    IterInexact,
    IterNonFused,
    ClonedSlice,
    CopiedSlice,
    ClonedVecRef,
    ClonedIter,
    CopiedIter,
    /// reference-yielding wrapped iterators: the underlying iterators of ClonedIter / CopiedIter (C13 pair runs only)
    RefIter,
    RefIterUnk,
}

pub const ALL_KINDS: [K; 14] = [K::Slice, K::VecRef, K::Vec, K::Array, K::Range, K::IterExact, K::IterUnk, K::IterInexact, K::IterNonFused, K::ClonedSlice, K::CopiedSlice, K::ClonedVecRef, K::ClonedIter, K::CopiedIter];

impl K {
    pub fn name(&self) -> &'static str {
        match self {
            K::Slice => "slice",
            K::VecRef => "vecref",
            K::Vec => "vec",
            K::Array => "array",
            K::Range => "range",
            K::IterExact => "iter_exact",
            K::IterUnk => "iter_unk",
            K::IterInexact => "iter_inexact",
            K::IterNonFused => "iter_nonfused",
            K::ClonedSlice => "cloned_slice",
            K::CopiedSlice => "copied_slice",
            K::ClonedVecRef => "cloned_vecref",
            K::ClonedIter => "cloned_iter",
            K::CopiedIter => "copied_iter",
            K::RefIter => "ref_iter",
            K::RefIterUnk => "ref_iter_unk",
        }
    }
    pub fn parse(s: &str) -> Result<K, String> {
        ALL_KINDS.iter().chain([K::RefIter, K::RefIterUnk].iter()).copied().find(|k| k.name() == s).ok_or(format!("unknown kind '{s}'"))
    }
    /// try_get_len is always Some(exact)
    pub fn known_size(&self) -> bool {
        !matches!(self, K::IterUnk | K::IterInexact | K::IterNonFused | K::CopiedIter | K::RefIterUnk)
    }
    /// backed by one position counter, no waiting protocol
    pub fn counter_only(&self) -> bool {
        matches!(self, K::Slice | K::VecRef | K::Vec | K::Array | K::Range | K::ClonedSlice | K::CopiedSlice | K::ClonedVecRef)
    }
    pub fn wrapper(&self) -> bool {
        !self.counter_only()
    }
    /// owns ledger elements
    pub fn consuming(&self) -> bool {
        matches!(self, K::Vec | K::Array | K::IterExact | K::IterUnk | K::IterInexact | K::IterNonFused)
    }
    pub fn adaptor(&self) -> bool {
        matches!(self, K::ClonedSlice | K::CopiedSlice | K::ClonedVecRef | K::ClonedIter | K::CopiedIter)
    }
    pub fn clones(&self) -> bool {
        matches!(self, K::ClonedSlice | K::ClonedVecRef | K::ClonedIter)
    }
    /// delivers references into the source
    pub fn by_ref(&self) -> bool {
        matches!(self, K::Slice | K::VecRef | K::RefIter | K::RefIterUnk)
    }
    pub fn slots(&self) -> bool {
        matches!(self, K::Vec | K::Array)
    }
}

#[derive(Clone, Debug, PartialEq, Eq, Hash)]
pub struct SysCfg {
    pub kind: K,
    pub len: usize,
    pub plans: Vec<Plan>,
    pub fin: Final,
    pub fault: Fault,
}

impl SysCfg {
    pub fn cli(&self) -> String {
        format!("--kind {} --len {} --plans '{}' --final {} --fault {}", self.kind.name(), self.len, show_plans(&self.plans), self.fin.show(), self.fault.show())
    }
    pub fn has_skip(&self) -> bool {
        self.plans.iter().flatten().any(|o| *o == Op::Skip)
    }
    pub fn has_foreach(&self) -> bool {
        self.plans.iter().flatten().any(|o| matches!(o, Op::ForEach(_) | Op::EnumForEach(_) | Op::Fold(_)))
    }
    pub fn all_drain(&self) -> bool {
        self.plans.iter().all(|p| p.last().map_or(false, |o| o.is_drain()))
    }
    pub fn some_drain(&self) -> bool {
        self.plans.iter().any(|p| p.last().map_or(false, |o| o.is_drain()))
    }
}

// summary slots (state shared between calls, part of the state key)
pub const S_MAXPOS: usize = 0; // 1 + largest position delivered by a completed call
pub const S_END: usize = 1; // a completed pull reported the end
pub const S_SKIP: usize = 2; // a skip_to_end call completed
pub const S_MINLEN: usize = 3; // 1 + smallest length reported by a completed query
pub const S_MASK: usize = 4; // positions delivered so far
pub const S_ZERO: usize = 5; // a completed query answered 0 / No
pub const S_END1: usize = 6; // a completed single or one-shot pull reported the end
pub const S_PANIC: usize = 7; // an injected fault fired

const RANGE_START: usize = 5;

#[derive(Clone, Debug)]
pub struct Seen {
    pub key: usize,
    pub addr: usize,
    pub valid: bool,
    pub is_clone: bool,
}
fn obs<T: Obs>(x: &T) -> Seen {
    Seen { key: x.key(), addr: x.addr(), valid: x.valid(), is_clone: x.is_clone() }
}

pub struct Ctx {
    pub cfg: SysCfg,
    src_base: usize,
    src_stride: usize,
    last_pos: [Cell<Option<usize>>; MAXT],
    logs: RefCell<Vec<Vec<usize>>>,
    /// answers of length queries and panics, per thread (part of the outcome: C17 compares outcomes between builds)
    qlog: RefCell<Vec<Vec<String>>>,
    handed: RefCell<[u16; 64]>,
    closure_calls: Cell<u32>,
    closure_fault_at: Cell<Option<u32>>,
    has_skip: bool,
    has_foreach: bool,
    /// first positions of the clones made in this execution
    clone_starts: RefCell<Vec<usize>>,
    /// a plan contains a chunk size of 0 or near usize::MAX (C16's inputs)
    has_extreme: bool,
}

fn quiescent_check(s: &sh::Summary) -> Option<(&'static str, &'static str, String)> {
    let m = s[S_MASK];
    if m & m.wrapping_add(1) != 0 {
        Some(("C04", "prefix-gap", format!("no pull is in flight but the delivered positions {:#b} are not a gap-free prefix of the source", m)))
    } else {
        None
    }
}

impl Ctx {
    fn key_at(&self, pos: usize) -> usize {
        match self.cfg.kind {
            K::Range => RANGE_START + pos,
            _ => key_of(pos),
        }
    }
    fn pos_from_key(&self, key: usize) -> Option<usize> {
        match self.cfg.kind {
            K::Range => key.checked_sub(RANGE_START).filter(|p| *p < 64),
            _ => pos_of(key),
        }
    }

    /// report under the primary property and under every property whose statement covers this class
    /// for the features of this configuration
    fn viol(&self, prop: &str, class: &str, msg: String) {
        let msg = format!("[{}] {msg}", self.cfg.cli());
        let faulty = self.cfg.fault != Fault::None;
        let primary = if faulty && matches!(class, "hang" | "no-return") { "C18" } else { prop };
        sh::violation(primary, class, msg.clone());
        let mut also: Vec<&str> = vec![];
        if self.has_foreach && matches!(class, "data-race" | "overlap") {
            // for_each / fold running on a racy wrapped iterator: "exactly once" cannot be promised
            also.push("C12");
        }
        if self.cfg.kind.adaptor() && primary != "C13" && !matches!(class, "data-race" | "overlap") {
            also.push("C13");
        }
        if faulty && matches!(class, "duplicate" | "destroyed-twice" | "never-destroyed" | "handed-twice") && primary != "C18" {
            also.push("C18");
        }
        if faulty && matches!(class, "hang" | "no-return") {
            // a call that never returns is also a progress violation
            also.push("C09");
        }
        // (a skip that destroys what a caller received: "elements delivered before it stay valid")
        if self.has_skip && matches!(class, "duplicate" | "thread-order" | "realtime-order" | "index-fidelity" | "address" | "handed-twice" | "destroyed-twice" | "garbage") && primary != "C06" {
            also.push("C06");
        }
        if self.has_foreach && matches!(class, "lost" | "duplicate" | "hang" | "no-return" | "foreach-index" | "beyond-source" | "foreign-element" | "garbage") && primary != "C12" && !faulty {
            also.push("C12");
        }
        if self.has_extreme && matches!(class, "duplicate" | "lost" | "beyond-source" | "foreign-element" | "index-fidelity" | "index-beyond-source" | "empty-chunk" | "short-chunk" | "chunk-beyond-source" | "revived" | "thread-order") && primary != "C16" {
            // a zero-sized pull must leave the iterator unchanged, an extreme one must behave mathematically
            also.push("C16");
        }
        if class == "never-destroyed" && !faulty && primary != "C15" {
            // an element that is never destroyed keeps whatever heap memory it owns: a leak of the consumed collection
            also.push("C15");
        }
        if matches!(class, "duplicate" | "handed-twice") && self.cfg.kind.consuming() && primary != "C08" {
            also.push("C08");
        }
        for p in also {
            sh::violation(p, class, msg.clone());
        }
    }

    /// the harness takes ownership of a delivered item and destroys it
    fn consume<T: Obs>(&self, x: T) {
        if !x.is_clone() && self.cfg.kind.consuming() {
            if let Some(p) = self.pos_from_key(x.key()) {
                let mut h = self.handed.borrow_mut();
                h[p] += 1;
                if h[p] > 1 {
                    drop(h);
                    self.viol("C08", "handed-twice", format!("element of position {p} was moved out to callers twice"));
                }
            }
        }
        drop(x);
    }

    /// what a clone made by `tid` delivered when drained: exactly the positions p..len in order, where p is the
    /// original's position at some moment of the clone() call
    fn on_clone(&self, tid: usize, ci: &CallInfo, got: &[(usize, Seen)]) {
        let len = self.cfg.len;
        let snap = ci.snap;
        let p = got.first().map(|g| g.0).unwrap_or(len);
        self.qlog.borrow_mut()[tid].push(format!("K:{p}+{}", got.len()));
        for (j, (idx, s)) in got.iter().enumerate() {
            if *idx != p + j || *idx >= len {
                self.viol("C19", "clone-sequence", format!("a clone made on thread {tid} delivered index {idx} as its item #{j} (first index {p}, source length {len})"));
                return;
            }
            if s.key != self.key_at(*idx) || !s.valid {
                self.viol("C19", "clone-element", format!("a clone made on thread {tid} delivered key {} under index {idx}, the source holds key {}", s.key, self.key_at(*idx)));
                return;
            }
            if self.cfg.kind.by_ref() && s.addr != self.src_base + idx * self.src_stride {
                self.viol("C19", "address", format!("a clone made on thread {tid}: reference for position {idx} does not point at the collection's element"));
                return;
            }
        }
        if p + got.len() != len {
            self.viol("C19", "clone-sequence", format!("a clone made on thread {tid} delivered positions {p}..{} and then reported the end, the source has {len} elements", p + got.len()));
            return;
        }
        // "starts at the original's current position": not before what calls that had returned before clone() started had received
        let lo = if snap[S_END] == 1 || snap[S_SKIP] == 1 { len } else { (snap[S_MAXPOS] as usize).min(len) };
        if p < lo {
            self.viol("C19", "clone-position", format!("a clone made on thread {tid} starts at position {p}, but calls that had returned before clone() started had already received everything below {lo} (end reported: {}, skipped: {})", snap[S_END], snap[S_SKIP]));
        }
        self.clone_starts.borrow_mut().push(p);
    }

    fn closure_entry(&self) {
        let k = self.closure_calls.get();
        self.closure_calls.set(k + 1);
        if self.closure_fault_at.get() == Some(k) {
            self.closure_fault_at.set(None);
            mark_panic();
            panic!("injected fault: closure panics");
        }
    }

    /// one delivered position `pos` (from an index if the API reported one, else from the element)
    /// One delivered position. The position is the *element's* source position whenever the harness saw
    /// the element (exactly-once, order and prefix oracles are about elements); the index the API
    /// reported with it is judged separately (C02). For announced but unconsumed chunk items only the
    /// reported index is known.
    fn deliver_pos(&self, tid: usize, what: &str, idx: Option<usize>, s: Option<&Seen>) -> Option<usize> {
        let epos = match s {
            Some(s) => match self.pos_from_key(s.key) {
                Some(p) => Some(p),
                None => {
                    self.viol("C01", "foreign-element", format!("{what} on thread {tid} delivered an element (key {}, reported index {idx:?}) that is not an element of the source", s.key));
                    if let Some(i) = idx {
                        self.viol("C02", "index-fidelity", format!("{what} on thread {tid} reported index {i} with an element (key {}) that is not an element of the source", s.key));
                    }
                    return None;
                }
            },
            None => None,
        };
        if let (Some(i), Some(s)) = (idx, s) {
            if i >= self.cfg.len {
                self.viol("C02", "index-beyond-source", format!("{what} on thread {tid} reported index {i} (element key {}) but a sequential iteration of the source produces nothing at that position ({} elements)", s.key, self.cfg.len));
            } else if s.key != self.key_at(i) {
                self.viol("C02", "index-fidelity", format!("{what} on thread {tid} reported index {i} with element key {} but the source has key {} at that position", s.key, self.key_at(i)));
            }
        }
        let pos = match (epos, idx) {
            (Some(e), _) => e,
            (None, Some(i)) => i,
            (None, None) => return None,
        };
        if pos >= self.cfg.len {
            let p = if self.cfg.kind == K::IterNonFused { "C05" } else { "C01" };
            self.viol(p, "beyond-source", format!("{what} on thread {tid} delivered position {pos} but the source has {} elements", self.cfg.len));
            if self.cfg.kind == K::IterNonFused {
                // the wrapped sequential iterator ends at its first None: anything delivered afterwards is not what it would yield
                self.viol("C04", "beyond-source", format!("{what} on thread {tid} delivered an element the wrapped sequential iterator only produces after its first None (polled again after the end)"));
            }
            return None;
        }
        if let Some(s) = s {
            if !s.valid {
                self.viol("C08", "garbage", format!("{what} on thread {tid} delivered a destroyed / uninitialised element at position {pos}"));
            }
            if self.cfg.kind.by_ref() && s.addr != self.src_base + pos * self.src_stride {
                self.viol("C19", "address", format!("{what} on thread {tid}: reference for position {pos} does not point at the collection's element"));
            }
            if self.cfg.kind.clones() && !s.is_clone {
                self.viol("C13", "not-a-clone", format!("{what}: item at position {pos} is not a clone"));
            }
        }
        let mut sm = sh::summary();
        if sm[S_MASK] & (1 << pos) != 0 {
            self.viol("C01", "duplicate", format!("{what} on thread {tid} delivered position {pos} which had already been delivered (delivered mask {:#b})", sm[S_MASK]));
        }
        sm[S_MASK] |= 1 << pos;
        sh::set_summary(sm);
        if let Some(l) = self.last_pos[tid].get() {
            if pos <= l {
                self.viol("C04", "thread-order", format!("thread {tid} received position {pos} after position {l}"));
            }
        }
        self.last_pos[tid].set(Some(pos));
        self.logs.borrow_mut()[tid].push(pos);
        if self.cfg.kind.slots() {
            sh::cell_access(CELL_SLOT0 + pos as u32, true, "a storage slot of the consumed collection");
        }
        Some(pos)
    }

    /// a pull returned items: `begin` = reported index (None for index-less entry points)
    #[allow(clippy::too_many_arguments)]
    fn on_got(&self, tid: usize, what: &str, ci: &CallInfo, begin: Option<usize>, announced: usize, seen: &[Seen], nreq: Option<usize>) {
        let snap = ci.snap;
        let mut minp = usize::MAX;
        let mut maxp = 0usize;
        let mut any = false;
        for j in 0..announced.max(seen.len()) {
            let s = seen.get(j);
            if begin.is_none() && s.is_none() {
                continue;
            }
            if let Some(p) = self.deliver_pos(tid, what, begin.map(|b| b + j), s) {
                minp = minp.min(p);
                maxp = maxp.max(p);
                any = true;
            }
        }
        if let (Some(n), Some(b)) = (nreq, begin) {
            // chunk contract
            if announced == 0 {
                self.viol("C03", "empty-chunk", format!("{what} on thread {tid} returned an empty chunk (begin {b})"));
                if n == 0 {
                    self.viol("C16", "zero-chunk", format!("{what} on thread {tid}: a chunk pull of size 0 returned a chunk instead of nothing"));
                }
            }
            if announced > n {
                self.viol("C03", "oversized-chunk", format!("{what} on thread {tid} returned {announced} > {n} elements"));
            }
            if b + announced > self.cfg.len || seen.len() > announced {
                self.viol("C03", "chunk-beyond-source", format!("{what} on thread {tid} returned a chunk at {b} announcing {announced} and yielding {} elements: not a run of consecutive source positions (the source has {} elements)", seen.len(), self.cfg.len));
            }
            if seen.iter().any(|s| self.pos_from_key(s.key).map_or(true, |p| p >= self.cfg.len)) {
                self.viol("C03", "chunk-foreign-element", format!("{what} on thread {tid} returned a chunk at {b} containing elements that are not elements of the source"));
            }
            if let Some((j, s)) = seen.iter().enumerate().find(|(j, s)| b + j < self.cfg.len && self.pos_from_key(s.key).is_some_and(|p| p < self.cfg.len && p != b + j)) {
                self.viol("C03", "chunk-not-consecutive", format!("{what} on thread {tid} returned a chunk at {b} whose item #{j} is the element of position {:?}: not consecutive source positions starting at the reported begin index", self.pos_from_key(s.key)));
            }
            if announced < n && b + announced != self.cfg.len && b + announced <= self.cfg.len {
                self.viol("C03", "short-chunk", format!("{what} on thread {tid} returned {announced} < {n} elements starting at {b} although the source has {} elements", self.cfg.len));
            }
        }
        if any {
            if (minp as u64) < snap[S_MAXPOS] {
                self.viol("C04", "realtime-order", format!("{what} on thread {tid} received position {minp} although a call that had returned before it started had received position {}", snap[S_MAXPOS] - 1));
            }
            if snap[S_END] == 1 {
                self.viol("C05", "revived", format!("{what} on thread {tid} delivered position {minp} although a pull that returned before it started had reported the end"));
            }
            if snap[S_SKIP] == 1 {
                self.viol("C06", "after-skip", format!("{what} on thread {tid} delivered position {minp} although skip_to_end had returned before it started"));
            }
            if snap[S_ZERO] == 1 {
                self.viol("C11", "after-zero", format!("{what} on thread {tid} delivered position {minp} although a length query that returned before it started had answered 0 / No"));
            }
            let mut sm = sh::summary();
            sm[S_MAXPOS] = sm[S_MAXPOS].max(maxp as u64 + 1);
            sh::set_summary(sm);
        }
    }

    fn on_end(&self, single_or_oneshot: bool) {
        let mut sm = sh::summary();
        sm[S_END] = 1;
        if single_or_oneshot {
            sm[S_END1] = 1;
        }
        sh::set_summary(sm);
    }

    fn on_len(&self, tid: usize, what: &str, ci: &CallInfo, v: Option<usize>) {
        let snap = ci.snap;
        self.qlog.borrow_mut()[tid].push(format!("{what}={v:?}"));
        match v {
            Some(x) => {
                if snap[S_MINLEN] != 0 && (x as u64) + 1 > snap[S_MINLEN] {
                    self.viol("C11", "len-increased", format!("{what} on thread {tid} reported {x} after an earlier completed query had reported {}", snap[S_MINLEN] - 1));
                }
                if x > 0 && snap[S_END] == 1 {
                    self.viol("C05", "positive-len-after-end", format!("{what} on thread {tid} reported {x} remaining elements after a completed pull had reported the end"));
                }
                if x > 0 && snap[S_SKIP] == 1 {
                    self.viol("C06", "positive-len-after-skip", format!("{what} on thread {tid} reported {x} remaining elements after skip_to_end had returned"));
                }
                let delivered = snap[S_MASK].count_ones() as usize;
                if x + delivered > self.cfg.len {
                    self.viol("C11", "len-too-large", format!("{what} on thread {tid} reported {x} remaining elements but {delivered} of {} had already been delivered when it started", self.cfg.len));
                }
                if !self.cfg.kind.known_size() && x > 0 {
                    self.viol("C11", "yes-on-unknown", format!("{what} reported a positive length {x} for a source of unknown size"));
                }
                let mut sm = sh::summary();
                sm[S_MINLEN] = if sm[S_MINLEN] == 0 { x as u64 + 1 } else { sm[S_MINLEN].min(x as u64 + 1) };
                if x == 0 {
                    sm[S_ZERO] = 1;
                }
                sh::set_summary(sm);
            }
            None => {
                if self.cfg.kind.known_size() {
                    self.viol("C11", "maybe-on-known", format!("{what} answered unknown / Maybe for a source of known size"));
                }
                if snap[S_SKIP] == 1 {
                    self.viol("C06", "maybe-after-skip", format!("{what} on thread {tid} did not answer No / 0 after skip_to_end had returned"));
                }
                if snap[S_END1] == 1 {
                    self.viol("C11", "maybe-after-end", format!("{what} on thread {tid} did not answer No / 0 after a single or one-shot pull had reported the end"));
                }
            }
        }
    }
}

/// RAII: tracking on (restored on drop, also when a panic unwinds through)
struct TrackOn(bool);
impl TrackOn {
    fn new() -> Self {
        TrackOn(sh::alloc::track(true))
    }
}
impl Drop for TrackOn {
    fn drop(&mut self) {
        sh::alloc::track(self.0);
    }
}

/// subject code runs with allocation tracking on (C15); harness bookkeeping runs with it off
#[inline]
fn subj<R>(f: impl FnOnce() -> R) -> R {
    let t = sh::alloc::track(true);
    let r = f();
    sh::alloc::track(t);
    r
}

fn mark_panic() {
    let mut sm = sh::summary();
    sm[S_PANIC] = 1;
    sh::set_summary(sm);
}

/// consume `k` items of a chunk, checking the ExactSizeIterator contract
fn consume_chunk<T: Obs, It: ExactSizeIterator<Item = T>>(cx: &Ctx, tid: usize, what: &str, mut values: It, k: usize) -> (usize, Vec<Seen>) {
    let announced = values.len();
    let mut seen = vec![];
    let mut j = 0;
    while j < k {
        let l0 = values.len();
        match values.next() {
            Some(x) => {
                if values.len() + 1 != l0 {
                    cx.viol("C03", "len-inexact", format!("{what} on thread {tid}: len() went from {l0} to {} across one next()", values.len()));
                }
                seen.push(obs(&x));
                cx.consume(x);
            }
            None => {
                if j != announced {
                    cx.viol("C03", "len-mismatch", format!("{what} on thread {tid}: chunk announced {announced} elements but yielded {j}"));
                }
                if values.len() != 0 {
                    cx.viol("C03", "len-inexact", format!("{what} on thread {tid}: len() is {} after the chunk ended", values.len()));
                }
                break;
            }
        }
        j += 1;
        if j > announced + 2 {
            cx.viol("C03", "len-mismatch", format!("{what} on thread {tid}: chunk announced {announced} elements but keeps yielding"));
            break;
        }
    }
    drop(values);
    (announced, seen)
}

fn single<I: ConcurrentIter>(cx: &Ctx, it: &I, tid: usize, op: Op) -> bool
where
    I::Item: Obs,
{
    let what = op.show();
    sh::begin_call();
    let r: Result<Option<(Option<usize>, I::Item)>, String> = sh::guarded(|| {
        subj(|| match op {
            Op::Next | Op::DrainNext => it.next().map(|v| (None, v)),
            Op::IdVal | Op::DrainIdVal => it.next_id_and_value().map(|x| (Some(x.idx), x.value)),
            Op::Vals | Op::DrainVals => it.values().next().map(|v| (None, v)),
            _ => it.ids_and_values().next().map(|(i, v)| (Some(i), v)),
        })
    });
    let ci = sh::end_call();
    match r {
        Ok(Some((idx, v))) => {
            let s = obs(&v);
            cx.on_got(tid, &what, &ci, idx, 1, &[s], None);
            cx.consume(v);
            true
        }
        Ok(None) => {
            cx.on_end(true);
            false
        }
        Err(m) => {
            on_panic(cx, tid, &what, &m);
            false
        }
    }
}

fn on_panic(cx: &Ctx, tid: usize, what: &str, m: &str) {
    cx.qlog.borrow_mut()[tid].push(format!("{what}:panic"));
    if m.contains("injected fault") {
        mark_panic();
    } else {
        cx.viol("PANIC", "unexpected-panic", format!("{what} on thread {tid} panicked: {m}"));
    }
}

fn body<I: ConcurrentIter>(cx: &Ctx, it: &I, tid: usize, plan: &[Op], cloner: Option<fn(&I) -> I>)
where
    I::Item: Obs,
{
    for &op in plan {
        let what = op.show();
        match op {
            Op::Next | Op::IdVal | Op::Vals | Op::IdsVals => {
                single(cx, it, tid, op);
            }
            Op::DrainNext | Op::DrainIdVal | Op::DrainVals | Op::DrainIdsVals => while single(cx, it, tid, op) {},
            Op::Chunk(n, _) | Op::DrainChunk(n) => {
                let k = if let Op::Chunk(_, k) = op { k } else { ALL };
                loop {
                    sh::begin_call();
                    // the values of a chunk may be produced lazily (clones): consume inside the guarded region
                    let r = sh::guarded(|| match subj(|| it.next_chunk(n)) {
                        Some(c) => {
                            let ci = sh::end_call();
                            let b = c.begin_idx;
                            let (announced, seen) = consume_chunk(cx, tid, &what, c.values, k);
                            cx.on_got(tid, &what, &ci, Some(b), announced, &seen, Some(n));
                            true
                        }
                        None => {
                            let _ci = sh::end_call();
                            if n > 0 {
                                cx.on_end(true);
                            }
                            false
                        }
                    });
                    let got = match r {
                        Ok(g) => g,
                        Err(m) => {
                            let _ = sh::end_call();
                            on_panic(cx, tid, &what, &m);
                            false
                        }
                    };
                    if !(got && matches!(op, Op::DrainChunk(_))) {
                        break;
                    }
                }
            }
            Op::Buf(n, _, _) | Op::DrainBuf(n) => {
                let (j, k) = if let Op::Buf(_, j, k) = op { (j, k) } else { (usize::MAX, ALL) };
                let bi = sh::guarded(|| subj(|| it.buffered_iter(n)));
                let mut bi = match bi {
                    Ok(b) => b,
                    Err(m) => {
                        on_panic(cx, tid, &what, &m);
                        continue;
                    }
                };
                let mut pulls = 0;
                while pulls < j {
                    pulls += 1;
                    sh::begin_call();
                    // results of a buffered pull borrow the buffer: consume inside the guarded region
                    let kk = if k != ALL && k >= LASTALL { if pulls == j { ALL } else { k - LASTALL } } else { k };
                    let r = sh::guarded(|| match subj(|| bi.next()) {
                        Some(c) => {
                            let b = c.begin_idx;
                            let ci = sh::end_call();
                            let (announced, seen) = consume_chunk(cx, tid, &what, c.values, kk);
                            cx.on_got(tid, &what, &ci, Some(b), announced, &seen, Some(n));
                            true
                        }
                        None => {
                            let _ci = sh::end_call();
                            cx.on_end(false);
                            false
                        }
                    });
                    match r {
                        Ok(true) => {}
                        Ok(false) => break,
                        Err(m) => {
                            let _ = sh::end_call();
                            on_panic(cx, tid, &what, &m);
                            break;
                        }
                    }
                }
                let _ = sh::guarded(move || drop(bi));
            }
            Op::ForEach(n) | Op::EnumForEach(n) | Op::Fold(n) => {
                sh::begin_call();
                let expected = Cell::new(0u64);
                let on_item = |idx: Option<usize>, x: I::Item| -> u64 {
                    let _nt = sh::alloc::NoTrack::new();
                    cx.closure_entry();
                    let s = obs(&x);
                    if let Some(i) = idx {
                        if i >= cx.cfg.len || s.key != cx.key_at(i) {
                            cx.viol("C12", "foreach-index", format!("{what} on thread {tid} passed index {i} with the element of key {}", s.key));
                        }
                    }
                    let w = match cx.deliver_pos(tid, &what, idx, Some(&s)) {
                        Some(p) => 1u64 << (2 * p as u64).min(62),
                        None => 0,
                    };
                    expected.set(expected.get() + w);
                    cx.consume(x);
                    w
                };
                let r = sh::guarded(|| {
                    let _t = TrackOn::new();
                    match op {
                    Op::ForEach(_) => {
                        it.for_each(n, |x| {
                            on_item(None, x);
                        });
                        None
                    }
                    Op::EnumForEach(_) => {
                        it.enumerate_for_each(n, |i, x| {
                            on_item(Some(i), x);
                        });
                        None
                    }
                    _ => Some(it.fold(n, 0u64, |acc, x| acc + on_item(None, x))),
                    }
                });
                let _ci = sh::end_call();
                match r {
                    Ok(res) => {
                        if let Some(v) = res {
                            if v != expected.get() {
                                cx.viol("C12", "fold-result", format!("fold on thread {tid} returned {v:#x} but its closure accumulated {:#x}", expected.get()));
                            }
                        }
                        cx.on_end(n == 1);
                        // the call returned: the iterator must be exhausted
                        sh::begin_call();
                        let r2 = sh::guarded(|| it.next());
                        let ci2 = sh::end_call();
                        match r2 {
                            Ok(Some(v)) => {
                                let s = obs(&v);
                                cx.viol("C12", "not-exhausted", format!("{what} on thread {tid} returned but a subsequent next() on the same thread still delivered an element (key {})", s.key));
                                cx.on_got(tid, "N", &ci2, None, 1, &[s], None);
                                cx.consume(v);
                            }
                            Ok(None) => {}
                            Err(m) => on_panic(cx, tid, "N", &m),
                        }
                    }
                    Err(m) => on_panic(cx, tid, &what, &m),
                }
            }
            Op::Skip => {
                sh::begin_call();
                let r = sh::guarded(|| subj(|| it.skip_to_end()));
                let _ci = sh::end_call();
                match r {
                    Ok(()) => {
                        let mut sm = sh::summary();
                        sm[S_SKIP] = 1;
                        sh::set_summary(sm);
                    }
                    Err(m) => on_panic(cx, tid, &what, &m),
                }
            }
            Op::CloneDrain => {
                let Some(cl) = cloner else { continue };
                sh::begin_call();
                let r = sh::guarded(|| subj(|| cl(it)));
                let ci = sh::end_call();
                match r {
                    Ok(c) => {
                        // the clone is private to this thread: drain it and judge what it delivers on its own
                        let mut got: Vec<(usize, Seen)> = vec![];
                        let r2 = sh::guarded(|| {
                            while let Some(x) = subj(|| c.next_id_and_value()) {
                                got.push((x.idx, obs(&x.value)));
                                drop(x.value);
                                if got.len() > cx.cfg.len + 2 {
                                    break;
                                }
                            }
                            subj(|| drop(c));
                        });
                        if let Err(m) = r2 {
                            cx.viol("C19", "clone-panic", format!("a pull on a clone (thread {tid}) panicked: {m}"));
                        }
                        cx.on_clone(tid, &ci, &got);
                    }
                    Err(m) => {
                        cx.qlog.borrow_mut()[tid].push("K:panic".into());
                        cx.viol("C19", "clone-panic", format!("clone() on thread {tid} panicked: {m}"));
                    }
                }
            }
            Op::Len => {
                sh::begin_call();
                let r = sh::guarded(|| it.try_get_len());
                let ci = sh::end_call();
                match r {
                    Ok(v) => cx.on_len(tid, &what, &ci, v),
                    Err(m) => on_panic(cx, tid, &what, &m),
                }
            }
            Op::HasMore => {
                sh::begin_call();
                let r = sh::guarded(|| it.has_more());
                let ci = sh::end_call();
                match r {
                    Ok(HasMore::Yes(0)) => cx.viol("C11", "yes-zero", format!("has_more on thread {tid} answered Yes(0)")),
                    Ok(HasMore::Yes(x)) => cx.on_len(tid, &what, &ci, Some(x)),
                    Ok(HasMore::No) => cx.on_len(tid, &what, &ci, Some(0)),
                    Ok(HasMore::Maybe) => cx.on_len(tid, &what, &ci, None),
                    Err(m) => on_panic(cx, tid, &what, &m),
                }
            }
        }
    }
}

/// owner of the iterator and of the source it may borrow from
struct Shared<I> {
    it: Option<I>,
    src: *mut Src,
}
impl<I> Drop for Shared<I> {
    fn drop(&mut self) {
        let it = self.it.take();
        let _ = sh::guarded(move || drop(it));
        let src = unsafe { Box::from_raw(self.src) };
        let _ = sh::guarded(move || drop(src));
    }
}

pub struct Src {
    pub elems: Vec<Elem>,
    pub nums: Vec<usize>,
}

fn system<I: ConcurrentIter + 'static>(cfg: &SysCfg, make: &dyn Fn(&'static Src) -> I) -> System
where
    I::Item: Obs,
{
    system_c(cfg, make, None)
}

fn system_c<I: ConcurrentIter + 'static>(cfg: &SysCfg, make: &dyn Fn(&'static Src) -> I, cloner: Option<fn(&I) -> I>) -> System
where
    I::Item: Obs,
{
    let fault = cfg.fault;
    ledger_reset(if let Fault::Clone(k) = fault { Some(k) } else { None });
    probe::probe_reset(if let Fault::Next(k) = fault { Some(k) } else { None });
    let len = cfg.len;
    sh::alloc::track(false);
    sh::alloc::reset();
    let src: *mut Src = Box::into_raw(Box::new(Src { elems: (0..len).map(Elem::new).collect(), nums: (0..len).map(key_of).collect() }));
    let sref: &'static Src = unsafe { &*src };
    let it = subj(|| make(sref));
    let (src_base, src_stride) = match cfg.kind {
        K::Slice | K::VecRef | K::RefIter | K::RefIterUnk => (sref.elems.as_ptr() as usize, std::mem::size_of::<Elem>()),
        _ => (0, 0),
    };
    let cx = Rc::new(Ctx {
        cfg: cfg.clone(),
        src_base,
        src_stride,
        last_pos: Default::default(),
        logs: RefCell::new(vec![vec![]; cfg.plans.len()]),
        qlog: RefCell::new(vec![vec![]; cfg.plans.len()]),
        handed: RefCell::new([0; 64]),
        closure_calls: Cell::new(0),
        closure_fault_at: Cell::new(if let Fault::Closure(k) = fault { Some(k) } else { None }),
        has_skip: cfg.has_skip(),
        has_foreach: cfg.has_foreach(),
        clone_starts: Default::default(),
        has_extreme: cfg.plans.iter().flatten().any(|o| matches!(o, Op::Chunk(n, _) | Op::DrainChunk(n) | Op::Buf(n, _, _) | Op::DrainBuf(n) if *n == 0 || *n > (1 << 40))),
    });
    let shared = Rc::new(Shared { it: Some(it), src });
    let mut bodies: Vec<Box<dyn FnOnce()>> = vec![];
    for (tid, plan) in cfg.plans.iter().cloned().enumerate() {
        let cx = cx.clone();
        let shared = shared.clone();
        bodies.push(Box::new(move || {
            body(&cx, shared.it.as_ref().unwrap(), tid, &plan, cloner);
        }));
    }
    let finish = Box::new(move |res: &ExecResult| -> String { finish(cx, shared, res) });
    System { bodies, finish }
}

fn finish<I: ConcurrentIter>(cx: Rc<Ctx>, shared: Rc<Shared<I>>, res: &ExecResult) -> String
where
    I::Item: Obs,
{
    let cfg = &cx.cfg;
    probe::disarm_faults();
    elem::disarm_clone_fault();
    let mut shared = match Rc::try_unwrap(shared) {
        Ok(s) => s,
        Err(_) => {
            sh::violation("ENGINE", "shared-owner", "iterator still shared after all threads ended".into());
            return "engine-error".into();
        }
    };
    let mut out = String::new();
    match res.outcome {
        Outcome::Hang(h) => {
            let frozen = res.frozen.map(|f| format!(" while thread {f} is suspended forever")).unwrap_or_default();
            cx.viol("C09", "hang", format!("threads {h:?} wait forever{frozen}: no enabled thread, every fair continuation keeps spinning"));
            if sh::summary()[S_END] == 1 && res.frozen.is_none() && cx.cfg.fault == Fault::None {
                // a pull that started after the end had been reported does not report the end: it never returns
                cx.viol("C05", "hang-after-end", format!("threads {h:?} never return although a pull had already reported the end"));
            }
            out.push_str("HANG ");
        }
        Outcome::NoReturn => {
            cx.viol("C09", "no-return", "step horizon exceeded: a call does not return".into());
            out.push_str("NORETURN ");
        }
        Outcome::Done => {}
    }
    let complete = *res.outcome == Outcome::Done && res.frozen.is_none();
    let sm = sh::summary();
    let mask = sm[S_MASK];
    let delivered = mask.count_ones() as usize;
    let faulty = cfg.fault != Fault::None;
    let fault_fired = sm[S_PANIC] == 1;
    let it = shared.it.take().unwrap();
    let mut rest_keys: Vec<usize> = vec![];
    if complete {
        if cfg.all_drain() && !cx.has_skip && !fault_fired && delivered != cfg.len {
            cx.viol("C01", "lost", format!("every thread pulled until it observed the end, yet only positions {:#b} of {} were delivered", mask, cfg.len));
        }
        if !cx.has_skip && delivered < cfg.len && mask == (1u64 << delivered) - 1 {
            // the original never got beyond `delivered`: no clone can start later
            for &p in cx.clone_starts.borrow().iter() {
                if p > delivered {
                    cx.viol("C19", "clone-position", format!("a clone started at position {p} but the original only ever reached position {delivered}"));
                }
            }
        }
        if !faulty {
            // length query at a quiescent point
            match sh::guarded(|| it.try_get_len()) {
                Ok(v) => {
                    let expect_zero = cx.has_skip || sm[S_END1] == 1;
                    match v {
                        Some(x) => {
                            let exp = if cx.has_skip { 0 } else { cfg.len - delivered.min(cfg.len) };
                            if cfg.kind.known_size() && x != exp && !(cx.has_skip && x == 0) {
                                cx.viol("C11", "len-wrong", format!("after all threads ended try_get_len is {x} but {exp} elements are undelivered"));
                            }
                            if !cfg.kind.known_size() && x != 0 {
                                cx.viol("C11", "yes-on-unknown", format!("try_get_len is Some({x}) for a source of unknown size"));
                            }
                            if !cfg.kind.known_size() && x == 0 && !expect_zero && delivered < cfg.len && !cfg.some_drain() {
                                cx.viol("C11", "false-no", format!("try_get_len is Some(0) although {} elements are undelivered and nobody observed the end", cfg.len - delivered));
                            }
                        }
                        None => {
                            if cfg.kind.known_size() {
                                cx.viol("C11", "maybe-on-known", "try_get_len is None for a source of known size".into());
                            }
                            if expect_zero {
                                cx.viol("C11", "maybe-after-end", "try_get_len is None after skip_to_end / an end report of a single or one-shot pull".into());
                            }
                        }
                    }
                }
                Err(m) => cx.viol("PANIC", "unexpected-panic", format!("try_get_len panicked: {m}")),
            }
        }
        match cfg.fin {
            Final::Drop => {
                if let Err(m) = sh::guarded(move || subj(move || drop(it))) {
                    cx.viol("PANIC", "unexpected-panic", format!("dropping the iterator panicked: {m}"));
                }
            }
            Final::Seq | Final::SeqK(_) => {
                let k = if let Final::SeqK(k) = cfg.fin { k } else { usize::MAX };
                let r = sh::guarded(move || {
                    let mut seq = subj(move || it.into_seq_iter());
                    let mut v = vec![];
                    while v.len() < k {
                        match subj(|| seq.next()) {
                            Some(x) => v.push(x),
                            None => break,
                        }
                    }
                    subj(move || drop(seq));
                    v
                });
                match r {
                    Ok(v) => {
                        rest_keys = v.iter().map(|x| x.key()).collect();
                        for x in v {
                            cx.consume(x);
                        }
                        if !faulty && cfg.kind != K::IterNonFused {
                            let undelivered: Vec<usize> = (0..cfg.len).filter(|p| mask & (1 << p) == 0).map(|p| cx.key_at(p)).collect();
                            if k == usize::MAX {
                                let ok = if cx.has_skip { undelivered.ends_with(&rest_keys) } else { undelivered == rest_keys };
                                if !ok {
                                    cx.viol("C10", "remainder", format!("into_seq_iter yielded keys {rest_keys:?} but the undelivered elements are {undelivered:?}{}", if cx.has_skip { " (a suffix is expected after skip_to_end)" } else { "" }));
                                }
                            } else if !cx.has_skip {
                                let n = rest_keys.len();
                                if n != k.min(undelivered.len()) || undelivered[..n] != rest_keys[..] {
                                    cx.viol("C10", "remainder", format!("first {k} items of into_seq_iter are {rest_keys:?} but the undelivered elements are {undelivered:?}"));
                                }
                            }
                        }
                    }
                    Err(m) => cx.viol("PANIC", "unexpected-panic", format!("into_seq_iter panicked: {m}")),
                }
            }
        }
    } else {
        let _ = sh::guarded(move || drop(it));
    }
    // ledger
    let l1 = ledger();
    if complete {
        if cfg.kind.consuming() {
            let twice: Vec<String> = (0..cfg.len).filter(|&p| l1.dropped[p] > 1).map(|p| format!("pos {p}: destroyed {}x", l1.dropped[p])).collect();
            let never: Vec<usize> = (0..cfg.len).filter(|&p| l1.dropped[p] == 0).collect();
            if !twice.is_empty() || l1.garbage != 0 {
                cx.viol("C08", "destroyed-twice", format!("after everything was dropped: elements destroyed more than once: {twice:?}; destructor runs on dead memory: {}", l1.garbage));
            }
            if !never.is_empty() {
                cx.viol("C08", "never-destroyed", format!("after everything was dropped: elements of positions {never:?} were neither moved out to a caller nor destroyed"));
            }
        } else {
            let touched: Vec<usize> = (0..cfg.len).filter(|&p| l1.dropped[p] != 0).collect();
            if !touched.is_empty() || l1.garbage != 0 {
                cx.viol("C19", "source-modified", format!("a non-consuming iterator destroyed source elements {touched:?} (garbage {})", l1.garbage));
            }
            let cl: Vec<usize> = (0..64).filter(|&p| l1.clone_made[p] != l1.clone_dropped[p]).collect();
            if !cl.is_empty() {
                cx.viol("C13", "clone-ledger", format!("clones created and destroyed differ for positions {cl:?}"));
            }
        }
    }
    // (not under fault injection: the panic machinery itself allocates while subject code is on the stack)
    if complete && cfg.kind.consuming() && !faulty {
        let (blocks, bytes) = sh::alloc::live();
        if blocks != 0 {
            cx.viol("C15", "leak", format!("{blocks} heap block(s) / {bytes} bytes that belonged to the consumed collection or were allocated by the iterator are still live after everything was dropped"));
        }
    }
    drop(shared); // drops the source
    if complete && !cfg.kind.consuming() {
        let l2 = ledger();
        let bad: Vec<usize> = (0..cfg.len).filter(|&p| l2.dropped[p] != 1).collect();
        if !bad.is_empty() {
            cx.viol("C19", "source-modified", format!("after dropping the source, elements {bad:?} were not destroyed exactly once"));
        }
    }
    for (t, l) in cx.logs.borrow().iter().enumerate() {
        out.push_str(&format!("t{t}:{l:?}{:?} ", cx.qlog.borrow()[t]));
    }
    out.push_str(&format!("rest:{rest_keys:?}"));
    out
}

macro_rules! arr {
    ($cfg:expr, $n:literal) => {
        system($cfg, &|_s: &'static Src| {
            let v: Vec<Elem> = (0..$n).map(Elem::new).collect();
            let a: [Elem; $n] = v.try_into().expect("len");
            a.into_con_iter()
        })
    };
}

/// Build the closed system for one configuration.
pub fn make_system(cfg: &SysCfg) -> System {
    let len = cfg.len;
    // spare capacity on purpose: the length, not the capacity, bounds the elements
    let owned = move || -> Vec<Elem> {
        let mut v = Vec::with_capacity(len + 2);
        v.extend((0..len).map(Elem::new));
        v
    };
    match cfg.kind {
        K::Slice => system_c(cfg, &|s| s.elems.as_slice().into_con_iter(), Some(|i| i.clone())),
        K::VecRef => system_c(cfg, &|s| s.elems.con_iter(), Some(|i| i.clone())),
        K::Vec => system(cfg, &|_s| owned().into_con_iter()),
        K::Array => match len {
            0 => arr!(cfg, 0),
            1 => arr!(cfg, 1),
            2 => arr!(cfg, 2),
            3 => arr!(cfg, 3),
            4 => arr!(cfg, 4),
            5 => arr!(cfg, 5),
            6 => arr!(cfg, 6),
            _ => panic!("array kind supports len 0..=6"),
        },
        K::Range => system_c(cfg, &|_s| (RANGE_START..RANGE_START + len).con_iter(), Some(|i| i.clone())),
        K::IterExact => system(cfg, &|_s| Probe::new(owned(), Hint::Exact, false).into_con_iter()),
        K::IterUnk => system(cfg, &|_s| Probe::new(owned(), Hint::Unbounded, false).into_con_iter()),
        K::IterInexact => system(cfg, &|_s| Probe::new(owned(), Hint::Inexact, false).into_con_iter()),
        K::IterNonFused => system(cfg, &|_s| Probe::new(owned(), Hint::Unbounded, true).into_con_iter()),
        K::ClonedSlice => system(cfg, &|s| s.elems.as_slice().into_con_iter().cloned()),
        K::CopiedSlice => system(cfg, &|s| s.nums.as_slice().into_con_iter().copied()),
        K::ClonedVecRef => system(cfg, &|s| s.elems.con_iter().cloned()),
        K::ClonedIter => system(cfg, &|s| ProbeRef::new(s.elems.as_slice(), Hint::Exact).into_con_iter().cloned()),
        K::CopiedIter => system(cfg, &|s| ProbeRef::new(s.nums.as_slice(), Hint::Unbounded).into_con_iter().copied()),
        K::RefIter => system(cfg, &|s| ProbeRef::new(s.elems.as_slice(), Hint::Exact).into_con_iter()),
        K::RefIterUnk => system(cfg, &|s| ProbeRef::new(s.elems.as_slice(), Hint::Unbounded).into_con_iter()),
    }
}

pub fn quiescent_fn() -> fn(&sh::Summary) -> Option<(&'static str, &'static str, String)> {
    quiescent_check
}

#[allow(dead_code)]
pub fn unused() {
    let _ = elem::MAXLEN;
}
