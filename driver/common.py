"""Shared plumbing of ./check: builds, sharded engine runs, known findings, evidence, replays."""
import sys, os, json, time, subprocess, glob, fnmatch, re, hashlib

VERIF = os.path.dirname(os.path.dirname(os.path.abspath(__file__)))
REPO = os.environ.get("VERIF_REPO", "/repo")
TARGET = os.path.join(VERIF, "target")
EVID = os.path.join(VERIF, "evidence")
REPLAYS = os.path.join(EVID, "replays")
NCPU = min(16, os.cpu_count() or 4)
GUARD = "orx_concurrent_iter_verif"

class MachineryError(Exception):
    pass

def cargo_env(extra=None):
    env = dict(os.environ)
    env["CARGO_NET_OFFLINE"] = "true"
    env.pop("RUSTC_WRAPPER", None)
    if extra:
        env.update(extra)
    return env

def run_build(cmd, env, what):
    t = time.time()
    p = subprocess.run(cmd, cwd=VERIF, env=env, stdout=subprocess.PIPE, stderr=subprocess.STDOUT, text=True)
    if p.returncode != 0:
        tail = "\n".join(p.stdout.splitlines()[-40:])
        raise MachineryError(f"build of {what} failed:\n{tail}")
    return time.time() - t

def build_conc(profile="release"):
    """E1 binary: /repo's working tree compiled with the hook on (atomics = orx_verif_shim)."""
    env = cargo_env({"RUSTFLAGS": f"--cfg {GUARD}", "CARGO_TARGET_DIR": os.path.join(TARGET, "hook")})
    run_build(["cargo", "build", "--offline", "--profile", profile, "-p", "conc"], env, f"E1 harness (hooks on, {profile})")
    return os.path.join(TARGET, "hook", profile, "conc")

def build_seq(profile):
    """E3 binary in profile pdbg / prel: unmodified production build of /repo (guard off)."""
    env = cargo_env({"CARGO_TARGET_DIR": os.path.join(TARGET, "plain")})
    env.pop("RUSTFLAGS", None)
    run_build(["cargo", "build", "--offline", "--profile", profile, "-p", "seq"], env, f"E3 explorer ({profile})")
    return os.path.join(TARGET, "plain", profile, "seq")

def build_all():
    t = time.time()
    build_conc()
    build_conc("hdbg")
    for prof in ("pdbg", "prel"):
        if os.path.exists(os.path.join(VERIF, "seq")):
            build_seq(prof)
    print(f"build ok in {time.time()-t:.1f}s")
    return 0

def scan_uninstrumented():
    """atomics in /repo/src that do not go through the hook (reported in the evidence)"""
    out = []
    for path in sorted(glob.glob(os.path.join(REPO, "src", "**", "*.rs"), recursive=True)):
        if "/tests/" in path:
            continue
        try:
            lines = open(path, encoding="utf-8", errors="replace").read().splitlines()
        except OSError:
            continue
        for i, line in enumerate(lines):
            if "sync::atomic" in line and not line.strip().startswith("//"):
                prev = lines[i - 1].strip() if i > 0 else ""
                if prev.startswith("#[cfg(not(" + GUARD):
                    continue
                if "orx_verif_shim" in line:
                    continue
                out.append(f"{os.path.relpath(path, REPO)}:{i+1}: {line.strip()}")
    return out

def run_shards(binary, base_args, nshards, out_prefix, timeout, aborts=None):
    """run `binary base_args --shard i/n --out file` for all shards, NCPU at a time.
    If `aborts` is a list, a shard that dies with an E1-ABORT-MARK (non-unwinding panic) is recorded there and
    re-run without the aborting configuration (at most 6 times per shard)."""
    os.makedirs(os.path.dirname(out_prefix), exist_ok=True)
    pending = list(range(nshards))
    running = {}
    results = {}
    skip = {}
    t0 = time.time()
    while pending or running:
        while pending and len(running) < NCPU:
            i = pending.pop(0)
            out = f"{out_prefix}.{i}.json"
            if os.path.exists(out):
                os.remove(out)
            sk = skip.get(i, [])
            extra = ["--skip-idx", ",".join(str(x) for x in sk)] if sk else []
            p = subprocess.Popen([binary] + base_args + extra + ["--shard", f"{i}/{nshards}", "--out", out], stdout=subprocess.PIPE, stderr=subprocess.STDOUT, text=True)
            running[i] = (p, out)
        done = [i for i, (p, _) in running.items() if p.poll() is not None]
        if not done:
            if time.time() - t0 > timeout:
                for p, _ in running.values():
                    p.kill()
                raise MachineryError(f"engine run exceeded its wall-clock cap of {timeout}s")
            time.sleep(0.02)
            continue
        for i in done:
            p, out = running.pop(i)
            txt = p.stdout.read()
            if p.returncode != 0 or not os.path.exists(out):
                m = re.search(r"E1-ABORT-MARK idx=(\d+)\tcli=([^\t\n]*)\tpanic=([^\n]*)", txt)
                if m and aborts is not None:
                    aborts.append({"idx": int(m.group(1)), "cli": m.group(2), "panic": m.group(3)})
                    skip.setdefault(i, []).append(int(m.group(1)))
                    if len(skip[i]) <= 6:
                        pending.append(i)
                    else:
                        results[i] = None  # too many aborting configurations: the shard is abandoned (violations are reported)
                    continue
                raise MachineryError(f"engine shard {i}/{nshards} crashed (exit {p.returncode}): {txt[-2000:]}")
            results[i] = json.load(open(out))
            os.remove(out)
    return [results[i] for i in range(nshards) if results.get(i) is not None]

# ------------------------------------------------------------------------------------------------
# known findings

def load_known():
    path = os.path.join(VERIF, "known_findings.json")
    if not os.path.exists(path):
        return []
    return json.load(open(path)).get("findings", [])

def finding_matches(f, v):
    """every key of f['match'] must match the violation record (glob patterns)"""
    if f.get("property") != v.get("prop"):
        return False
    for k, pat in f.get("match", {}).items():
        val = str(v.get(k, ""))
        pats = pat if isinstance(pat, list) else [pat]
        if not any(fnmatch.fnmatchcase(val, p) for p in pats):
            return False
    return True

def classify(prop, violations):
    """split violations of this property into (new, known: {finding-id: [violations]})"""
    known = load_known()
    new, kn = [], {}
    for v in violations:
        f = next((f for f in known if finding_matches(f, v)), None)
        if f is None:
            new.append(v)
        else:
            kn.setdefault(f["id"], (f, []))[1].append(v)
    return new, kn

# ------------------------------------------------------------------------------------------------
# evidence / replays

def write_replay(prop, engine, n, v, replay_cmd):
    os.makedirs(REPLAYS, exist_ok=True)
    path = os.path.join(REPLAYS, f"{prop}-{engine}-{n}.json")
    rec = {"property": prop, "engine": engine, "class": v.get("class"), "message": v.get("msg"), "replay_cmd": replay_cmd}
    rec.update({k: v[k] for k in v if k not in rec and k not in ("msg",)})
    json.dump(rec, open(path, "w"), indent=1)
    return path

def clear_replays(prop):
    for f in glob.glob(os.path.join(REPLAYS, f"{prop}-*.json")):
        os.remove(f)

def write_evidence(prop, tier, seed, level, coverage, assumptions, wall, nviol):
    os.makedirs(EVID, exist_ok=True)
    ev = {"property_id": prop, "tier": tier, "seed": seed, "level": level, "coverage": coverage, "assumptions": assumptions, "wall_s": round(wall, 3), "violations": nviol}
    tmp = os.path.join(EVID, f".{prop}.json.tmp")
    json.dump(ev, open(tmp, "w"), indent=1)
    os.replace(tmp, os.path.join(EVID, f"{prop}.json"))

def replay(path):
    rec = json.load(open(path))
    cmd = rec["replay_cmd"]
    print(f"replaying {path}: {cmd}")
    # rebuild what the replay needs
    if rec.get("engine") == "E1":
        build_conc()
    elif rec.get("engine") == "E3":
        for prof in ("pdbg", "prel"):
            build_seq(prof)
    p = subprocess.run(cmd, shell=True, cwd=VERIF)
    return p.returncode
