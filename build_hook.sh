#!/bin/bash
cd /verif && RUSTFLAGS="--cfg orx_concurrent_iter_verif" CARGO_TARGET_DIR=/verif/target/hook cargo build --offline --release -p conc 2>&1 | grep -E "^(error|warning: unus)" -A14 | head -${1:-80}
