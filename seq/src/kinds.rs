//! Source kinds of the sequential explorer and the per-history driver around `run_history`.
use crate::elem::*;
use crate::exec::*;
use crate::hist::*;
use orx_concurrent_iter::*;
use orx_verif_shim::alloc;

#[derive(Clone, Copy, Debug, PartialEq, Eq, Hash, PartialOrd, Ord)]
pub enum KindId {
    Slice,
    VecRef,
    ArrayRef,
    OVec,
    OArray,
    Range0,
    Range5,
    RangeInto,
    IterExact,
    IterInexact,
    IterUnk,
    IterNonFused,
    /// not fused, with a truthful exact size hint (a Drain-like source)
    IterNonFusedExact,
    IterRef,
    IterRefUnk,
    ClonedSlice,
    CopiedSlice,
    ClonedVecRef,
    ClonedArrayRef,
    ClonedIter,
    CopiedIter,
    OVec24,
    OArray24,
    Iter24,
    OVecBox,
    OArrayBox,
    IterBox,
    OVecZst,
    OArrayZst,
    SliceZst,
    /// range with bounds taken from the C16 grid: the `len` of a unit encodes (start index, end index)
    RangeX,
}

pub const GRID: [usize; 9] = [0, 1, 7, usize::MAX / 2 - 1, usize::MAX / 2, usize::MAX / 2 + 1, usize::MAX - 2, usize::MAX - 1, usize::MAX];

pub const ALL_KINDS: [KindId; 31] = [
    KindId::Slice,
    KindId::VecRef,
    KindId::ArrayRef,
    KindId::OVec,
    KindId::OArray,
    KindId::Range0,
    KindId::Range5,
    KindId::RangeInto,
    KindId::IterExact,
    KindId::IterInexact,
    KindId::IterUnk,
    KindId::IterNonFused,
    KindId::IterNonFusedExact,
    KindId::IterRef,
    KindId::IterRefUnk,
    KindId::ClonedSlice,
    KindId::CopiedSlice,
    KindId::ClonedVecRef,
    KindId::ClonedArrayRef,
    KindId::ClonedIter,
    KindId::CopiedIter,
    KindId::OVec24,
    KindId::OArray24,
    KindId::Iter24,
    KindId::OVecBox,
    KindId::OArrayBox,
    KindId::IterBox,
    KindId::OVecZst,
    KindId::OArrayZst,
    KindId::SliceZst,
    KindId::RangeX,
];

impl KindId {
    pub fn info(&self) -> KindInfo {
        use KindId::*;
        let name = match self {
            Slice => "slice",
            VecRef => "vecref",
            ArrayRef => "arrayref",
            OVec => "vec",
            OArray => "array",
            Range0 => "range0",
            Range5 => "range5",
            RangeInto => "range_into",
            IterExact => "iter_exact",
            IterInexact => "iter_inexact",
            IterUnk => "iter_unk",
            IterNonFused => "iter_nonfused",
            IterNonFusedExact => "iter_nonfused_exact",
            IterRef => "iter_ref",
            IterRefUnk => "iter_ref_unk",
            ClonedSlice => "cloned_slice",
            CopiedSlice => "copied_slice",
            ClonedVecRef => "cloned_vecref",
            ClonedArrayRef => "cloned_arrayref",
            ClonedIter => "cloned_iter",
            CopiedIter => "copied_iter",
            OVec24 => "vec24",
            OArray24 => "array24",
            Iter24 => "iter24",
            OVecBox => "vec_box",
            OArrayBox => "array_box",
            IterBox => "iter_box",
            OVecZst => "vec_zst",
            OArrayZst => "array_zst",
            SliceZst => "slice_zst",
            RangeX => "range_grid",
        };
        KindInfo {
            name,
            known: !matches!(self, IterInexact | IterUnk | IterNonFused | CopiedIter | IterRefUnk),
            consuming: matches!(self, OVec | OArray | IterExact | IterInexact | IterUnk | IterNonFused | IterNonFusedExact | OVec24 | OArray24 | Iter24 | OVecBox | OArrayBox | IterBox | OVecZst | OArrayZst),
            by_ref: matches!(self, Slice | VecRef | ArrayRef | IterRef | IterRefUnk),
            clones: matches!(self, ClonedSlice | ClonedVecRef | ClonedArrayRef | ClonedIter),
            adaptor: matches!(self, ClonedSlice | CopiedSlice | ClonedVecRef | ClonedArrayRef | ClonedIter | CopiedIter),
            nonfused: matches!(self, IterNonFused | IterNonFusedExact),
            zst: matches!(self, OVecZst | OArrayZst | SliceZst),
            wrapper: matches!(self, IterExact | IterInexact | IterUnk | IterNonFused | IterNonFusedExact | IterRef | IterRefUnk | ClonedIter | CopiedIter | Iter24 | IterBox),
            keymap: match self {
                Range0 => KeyMap::Range(0),
                Range5 | RangeInto => KeyMap::Range(5),
                RangeX => KeyMap::Range(0),
                _ => KeyMap::Elem,
            },
        }
    }
    pub fn parse(s: &str) -> Option<KindId> {
        ALL_KINDS.iter().copied().find(|k| k.info().name == s)
    }
    /// the reference-yielding iterator an adaptor kind is compared with (C13)
    pub fn underlying(&self) -> Option<KindId> {
        use KindId::*;
        match self {
            ClonedSlice | CopiedSlice => Some(Slice),
            ClonedVecRef => Some(VecRef),
            ClonedArrayRef => Some(ArrayRef),
            ClonedIter => Some(IterRef),
            CopiedIter => Some(IterRefUnk),
            _ => None,
        }
    }
}

#[derive(Clone, Copy, Debug, PartialEq, Eq)]
pub enum Hint {
    Exact,
    Inexact,
    Unbounded,
}

/// owning probe iterator
pub struct Probe<T> {
    items: std::vec::IntoIter<T>,
    hint: Hint,
    ghost: Option<T>,
    ended: bool,
}
impl<const PAD: usize> Probe<Elem<PAD>> {
    pub fn new(items: std::vec::Vec<Elem<PAD>>, hint: Hint, nonfused: bool) -> Self {
        Probe { items: items.into_iter(), hint, ghost: if nonfused { Some(Elem::ghost()) } else { None }, ended: false }
    }
}
impl Probe<BElem> {
    pub fn new_box(items: std::vec::Vec<BElem>) -> Self {
        Probe { items: items.into_iter(), hint: Hint::Exact, ghost: None, ended: false }
    }
}
impl<T> Iterator for Probe<T> {
    type Item = T;
    fn next(&mut self) -> Option<T> {
        if self.ended {
            return self.ghost.take();
        }
        let r = self.items.next();
        if r.is_none() {
            self.ended = true;
        }
        r
    }
    fn size_hint(&self) -> (usize, Option<usize>) {
        let n = self.items.len();
        match self.hint {
            Hint::Exact => (n, Some(n)),
            Hint::Inexact => (0, Some(n + 3)),
            Hint::Unbounded => (0, None),
        }
    }
}

pub struct ProbeRef<'a, T> {
    src: &'a [T],
    i: usize,
    hint: Hint,
}
impl<'a, T> ProbeRef<'a, T> {
    pub fn new(src: &'a [T], hint: Hint) -> Self {
        ProbeRef { src, i: 0, hint }
    }
}
impl<'a, T> Iterator for ProbeRef<'a, T> {
    type Item = &'a T;
    fn next(&mut self) -> Option<&'a T> {
        let r = self.src.get(self.i);
        if r.is_some() {
            self.i += 1;
        }
        r
    }
    fn size_hint(&self) -> (usize, Option<usize>) {
        let n = self.src.len() - self.i;
        match self.hint {
            Hint::Exact => (n, Some(n)),
            Hint::Inexact => (0, Some(n + 3)),
            Hint::Unbounded => (0, None),
        }
    }
}

fn mk<const PAD: usize>(len: usize) -> std::vec::Vec<Elem<PAD>> {
    // the source collection is part of the accounted memory (it is handed over to the iterator);
    // spare capacity on purpose: the length, not the capacity, bounds the elements
    subj(|| {
        let mut v = Vec::with_capacity(len + 2);
        for i in 0..len {
            v.push(Elem::new(i));
        }
        v
    })
}

fn mkb(len: usize) -> std::vec::Vec<BElem> {
    subj(|| {
        let mut v = Vec::with_capacity(len + 1);
        for i in 0..len {
            v.push(BElem::new(i));
        }
        v
    })
}

macro_rules! with_array_box {
    ($len:expr, $a:ident => $body:block) => {{
        macro_rules! go {
            ($n:literal) => {{
                let v: std::vec::Vec<BElem> = mkb($n);
                let $a: [BElem; $n] = match v.try_into() {
                    Ok(a) => a,
                    Err(_) => unreachable!(),
                };
                $body
            }};
        }
        match $len {
            0 => go!(0),
            1 => go!(1),
            2 => go!(2),
            3 => go!(3),
            4 => go!(4),
            5 => go!(5),
            6 => go!(6),
            _ => panic!("array kinds support len 0..=6"),
        }
    }};
}

macro_rules! with_array {
    ($len:expr, $pad:literal, $a:ident => $body:block) => {{
        macro_rules! go {
            ($n:literal) => {{
                let v: std::vec::Vec<Elem<$pad>> = mk::<$pad>($n);
                let $a: [Elem<$pad>; $n] = match v.try_into() {
                    Ok(a) => a,
                    Err(_) => unreachable!(),
                };
                $body
            }};
        }
        match $len {
            0 => go!(0),
            1 => go!(1),
            2 => go!(2),
            3 => go!(3),
            4 => go!(4),
            5 => go!(5),
            6 => go!(6),
            _ => panic!("array kinds support len 0..=6"),
        }
    }};
}

/// after the source of a non-consuming iterator has been dropped: every element destroyed exactly once
fn post_source(env: &mut Env) {
    if !env.ok() {
        return;
    }
    LEDGER.with(|l| {
        let bad: Vec<(usize, u8)> = (0..env.len).filter(|&p| l.dropped[p].get() != 1).map(|p| (p, l.dropped[p].get())).collect();
        if !bad.is_empty() {
            env.fail(T_SRC, "source-modified", format!("after dropping the collection its elements were not destroyed exactly once: {bad:?}"));
        }
    });
}

fn run_ref<I: ConcurrentIter>(env: &mut Env, it: I, hist: &[SOp], term: Term)
where
    I::Item: Obs,
{
    run_history(env, it, hist, term);
    end_checks(env, true);
}

/// Execute one history on a fresh source of the given kind. Panics propagate.
#[derive(Clone, Copy, Debug, PartialEq, Eq)]
pub enum Mode {
    Normal,
    /// low-level safe API sequences, ownership ledger only (C14)
    LowLevel,
    /// several live iterators over one collection (C19)
    Multi,
}

fn exec_special(kind: KindId, mode: Mode, env: &mut Env, hist: &[SOp], term: Term) {
    use crate::special::*;
    use KindId::*;
    let len = env.len;
    ledger_reset();
    alloc::reset();
    env.reset();
    match (mode, kind) {
        (Mode::LowLevel, OVec) => {
            let src: std::vec::Vec<Elem<0>> = mk(len);
            let it = subj(|| src.into_con_iter());
            run_lowlevel(env, it, hist, term);
        }
        (Mode::LowLevel, OArray) => with_array!(len, 0, a => {
            let it = subj(|| IntoConcurrentIter::into_con_iter(a));
            run_lowlevel(env, it, hist, term);
        }),
        (Mode::LowLevel, IterExact) | (Mode::LowLevel, IterUnk) => {
            let src: std::vec::Vec<Elem<0>> = mk(len);
            let p = Probe::new(src, if kind == IterExact { Hint::Exact } else { Hint::Unbounded }, false);
            let it = subj(|| IterIntoConcurrentIter::into_con_iter(p));
            run_lowlevel(env, it, hist, term);
        }
        (Mode::Multi, Slice) | (Mode::Multi, VecRef) => {
            let src: std::vec::Vec<Elem<0>> = mk(len);
            env.src_base = src.as_ptr() as usize;
            env.stride = std::mem::size_of::<Elem<0>>();
            if kind == Slice {
                run_multi(env, &|| src.as_slice().into_con_iter(), hist, term);
            } else {
                run_multi(env, &|| src.con_iter(), hist, term);
            }
            end_checks(env, true);
            if env.ok() {
                for (i, e) in src.iter().enumerate() {
                    let s = e.seen();
                    if !s.valid || s.key != key_of(i) {
                        env.fail(T_SRC, "source-modified", format!("element {i} of the collection changed"));
                        break;
                    }
                }
            }
            subj(|| drop(src));
            post_source(env);
        }
        (Mode::Multi, ArrayRef) => with_array!(len, 0, a => {
            {
                let sl: &[Elem<0>] = &a;
                env.src_base = sl.as_ptr() as usize;
                env.stride = std::mem::size_of::<Elem<0>>();
            }
            run_multi(env, &|| a.con_iter(), hist, term);
            end_checks(env, true);
            subj(|| drop(a));
            post_source(env);
        }),
        (Mode::Multi, Range5) => {
            let r = 5..5 + len;
            run_multi(env, &|| r.con_iter(), hist, term);
            if env.ok() && r != (5..5 + len) {
                env.fail(T_SRC, "source-modified", "the range changed".into());
            }
        }
        _ => panic!("kind {:?} is not part of mode {:?}", kind, mode),
    }
    alloc_check(env);
}

pub fn exec_one(kind: KindId, mode: Mode, env: &mut Env, hist: &[SOp], term: Term) {
    use KindId::*;
    if mode != Mode::Normal {
        return exec_special(kind, mode, env, hist, term);
    }
    if kind == RangeX {
        // decode the grid cell; the model length is the mathematical length of the range
        let code = env.code;
        let (a, b) = (GRID[(code / 16) % 9], GRID[(code % 16) % 9]);
        env.len = b.saturating_sub(a);
        env.ki.keymap = KeyMap::Range(a);
        ledger_reset();
        alloc::reset();
        env.reset();
        run_ref(env, (a..b).con_iter(), hist, term);
        alloc_check(env);
        return;
    }
    let len = env.len;
    ledger_reset();
    alloc::reset();
    env.reset();
    match kind {
        Slice | ClonedSlice | VecRef | ClonedVecRef | IterRef | ClonedIter => {
            let src: std::vec::Vec<Elem<0>> = mk(len);
            env.src_base = src.as_ptr() as usize;
            env.stride = std::mem::size_of::<Elem<0>>();
            match kind {
                Slice => run_ref(env, src.as_slice().into_con_iter(), hist, term),
                ClonedSlice => run_ref(env, src.as_slice().into_con_iter().cloned(), hist, term),
                VecRef => run_ref(env, src.con_iter(), hist, term),
                ClonedVecRef => run_ref(env, src.con_iter().cloned(), hist, term),
                IterRef => run_ref(env, ProbeRef::new(src.as_slice(), Hint::Exact).into_con_iter(), hist, term),
                _ => run_ref(env, ProbeRef::new(src.as_slice(), Hint::Exact).into_con_iter().cloned(), hist, term),
            }
            // the collection must be intact and usable
            if env.ok() {
                for (i, e) in src.iter().enumerate() {
                    let s = e.seen();
                    if !s.valid || s.key != key_of(i) {
                        env.fail(T_SRC, "source-modified", format!("element {i} of the collection changed"));
                        break;
                    }
                }
            }
            subj(|| drop(src));
            post_source(env);
        }
        CopiedSlice | CopiedIter | IterRefUnk => {
            let src: std::vec::Vec<usize> = subj(|| (0..len).map(key_of).collect());
            match kind {
                CopiedSlice => run_ref(env, src.as_slice().into_con_iter().copied(), hist, term),
                IterRefUnk => {
                    env.src_base = src.as_ptr() as usize;
                    env.stride = std::mem::size_of::<usize>();
                    run_ref(env, ProbeRef::new(src.as_slice(), Hint::Unbounded).into_con_iter(), hist, term)
                }
                _ => run_ref(env, ProbeRef::new(src.as_slice(), Hint::Unbounded).into_con_iter().copied(), hist, term),
            }
            if env.ok() && src.iter().enumerate().any(|(i, x)| *x != key_of(i)) {
                env.fail(T_SRC, "source-modified", "the slice of numbers changed".into());
            }
            subj(|| drop(src));
        }
        ArrayRef | ClonedArrayRef => {
            with_array!(len, 0, a => {
                {
                    let sl: &[Elem<0>] = &a;
                    env.src_base = sl.as_ptr() as usize;
                    env.stride = std::mem::size_of::<Elem<0>>();
                }
                if kind == ArrayRef {
                    run_ref(env, a.con_iter(), hist, term);
                } else {
                    run_ref(env, a.con_iter().cloned(), hist, term);
                }
                subj(|| drop(a));
                post_source(env);
            });
        }
        OVec => {
            let src: std::vec::Vec<Elem<0>> = mk(len);
            let it = subj(|| src.into_con_iter());
            run_history(env, it, hist, term);
            end_checks(env, false);
        }
        OVec24 => {
            let src: std::vec::Vec<Elem<2>> = mk(len);
            let it = subj(|| src.into_con_iter());
            run_history(env, it, hist, term);
            end_checks(env, false);
        }
        OArray => with_array!(len, 0, a => {
            let it = subj(|| IntoConcurrentIter::into_con_iter(a));
            run_history(env, it, hist, term);
            end_checks(env, false);
        }),
        OArray24 => with_array!(len, 2, a => {
            let it = subj(|| IntoConcurrentIter::into_con_iter(a));
            run_history(env, it, hist, term);
            end_checks(env, false);
        }),
        Range0 => run_ref(env, (0..len).con_iter(), hist, term),
        Range5 => run_ref(env, (5..5 + len).con_iter(), hist, term),
        RangeInto => run_ref(env, IntoConcurrentIter::into_con_iter(5..5 + len), hist, term),
        IterExact | IterInexact | IterUnk | IterNonFused | IterNonFusedExact => {
            let src: std::vec::Vec<Elem<0>> = mk(len);
            let hint = match kind {
                IterExact | IterNonFusedExact => Hint::Exact,
                IterInexact => Hint::Inexact,
                _ => Hint::Unbounded,
            };
            let p = Probe::new(src, hint, matches!(kind, IterNonFused | IterNonFusedExact));
            let it = subj(|| IterIntoConcurrentIter::into_con_iter(p));
            run_history(env, it, hist, term);
            end_checks(env, false);
        }
        RangeX => unreachable!(),
        OVecZst => {
            let src: std::vec::Vec<Zst> = subj(|| (0..len).map(|_| Zst).collect());
            let it = subj(|| src.into_con_iter());
            run_history(env, it, hist, term);
            end_checks(env, false);
        }
        OArrayZst => {
            macro_rules! goz {
                ($n:literal) => {{
                    let a: [Zst; $n] = std::array::from_fn(|_| Zst);
                    let it = subj(|| IntoConcurrentIter::into_con_iter(a));
                    run_history(env, it, hist, term);
                    end_checks(env, false);
                }};
            }
            match len {
                0 => goz!(0),
                1 => goz!(1),
                2 => goz!(2),
                3 => goz!(3),
                4 => goz!(4),
                5 => goz!(5),
                6 => goz!(6),
                _ => panic!("array kinds support len 0..=6"),
            }
        }
        SliceZst => {
            let src: std::vec::Vec<Zst> = subj(|| (0..len).map(|_| Zst).collect());
            run_ref(env, src.as_slice().into_con_iter(), hist, term);
            subj(|| drop(src));
        }
        OVecBox => {
            let src = mkb(len);
            let it = subj(|| src.into_con_iter());
            run_history(env, it, hist, term);
            end_checks(env, false);
        }
        OArrayBox => with_array_box!(len, a => {
            let it = subj(|| IntoConcurrentIter::into_con_iter(a));
            run_history(env, it, hist, term);
            end_checks(env, false);
        }),
        IterBox => {
            let src = mkb(len);
            let p = Probe::new_box(src);
            let it = subj(|| IterIntoConcurrentIter::into_con_iter(p));
            run_history(env, it, hist, term);
            end_checks(env, false);
        }
        Iter24 => {
            let src: std::vec::Vec<Elem<2>> = mk(len);
            let p = Probe::new(src, Hint::Exact, false);
            let it = subj(|| IterIntoConcurrentIter::into_con_iter(p));
            run_history(env, it, hist, term);
            end_checks(env, false);
        }
    }
    alloc_check(env);
}
