mod elem;
mod harness;
mod ops;
mod probe;
mod configs;
mod run;

#[global_allocator]
static ALLOC: orx_verif_shim::alloc::Counting = orx_verif_shim::alloc::Counting;

fn main() {
    let args: Vec<String> = std::env::args().skip(1).collect();
    std::process::exit(run::main(&args));
}
