//! orx_verif_shim — controlled scheduler (engine E1 of /verif/DESIGN.md).
//!
//! * `atomic`  : drop-in replacements of `std::sync::atomic` types; every operation is a scheduling
//!               point of the coroutine scheduler and feeds the happens-before monitor.
//! * `Explorer`: stateless / stateful exploration of all interleavings of small closed systems whose
//!               threads are stackful coroutines on one OS thread.
//!
//! Outside of an exploration (no `Exec` installed) the shim types behave exactly like std atomics.

pub mod atomic;
pub mod alloc;
mod exec;
mod explore;

pub use exec::{
    active, begin_call, cell_access, cur_tid, end_call, guarded, note, set_abort_context, set_summary, summary,
    violation, yield_point, CallInfo, CancelToken, Kind, Step, Summary, Violation, MAXT, NSUM,
};
pub use explore::{warmup, Config, ExecResult, Explorer, Outcome, RunReport, SpinMode, Stats, System};
