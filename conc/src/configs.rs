//! Per-property configuration families (DESIGN.md §5). Every list is deterministic.
use crate::harness::*;
use crate::ops::*;
use crate::run::RunOpts;
use std::collections::BTreeSet;

#[derive(Clone, Copy, PartialEq, Eq, Debug)]
pub enum Tier {
    Quick,
    Thorough,
}

fn p(s: &str) -> Plan {
    parse_plans(s).expect("plan").remove(0)
}
fn menu(items: &[&str]) -> Vec<Plan> {
    items.iter().map(|s| p(s)).collect()
}

pub fn drains() -> Vec<Plan> {
    menu(&["DN", "DI", "DV", "DW", "DC1", "DC2", "DC3", "DB2", "DB3", "FE1", "FE2", "EF1", "EF2", "FO1", "FO3"])
}
pub fn prefixed() -> Vec<Plan> {
    menu(&["N,DC3", "I,DB2", "C2,DN", "C3,DI", "C2:1,DC2", "B2x1:1,DN", "B3x1,DC2", "N,N,DB2", "C2,FE2", "L,DN", "H,DB2", "C4611686018427387903:1,DN"])
}
pub fn stops() -> Vec<Plan> {
    menu(&["N", "I,I", "C2", "C2:1", "C3,N", "B2x1", "B2x2:1", "N,C2", "V,W", "B3x1:0,N", "C1,I", "B2x2:1f", "B3x2:0f"])
}
pub fn after_end() -> Vec<Plan> {
    menu(&["DN,N,C2,L", "DC2,I,H,B2x1", "DB2,N,L,C3", "DI,N,N", "FE2,C2,H", "DB3,B2x1,N"])
}
pub fn skips() -> Vec<Plan> {
    menu(&["S", "S,N,N", "N,S,C2,N", "S,S,I", "C2,S,B2x1,H", "S,L,DN", "N,N,S", "S,DB2", "I,S,FE2"])
}
pub fn lens() -> Vec<Plan> {
    menu(&["L", "L,N,L", "H,C2,H", "N,L,DN,L", "L,L", "H,S,H", "L,B2x1,L", "DC2,L,H"])
}
pub fn foreach_plans() -> Vec<Plan> {
    menu(&["FE1", "FE2", "FE3", "EF1", "EF2", "EF3", "FO1", "FO2", "FO3"])
}
pub fn chunky() -> Vec<Plan> {
    menu(&["C2", "C3", "C1", "C2:1", "C3:0", "B2x2:1", "B3x2", "B2x3:0", "DC2", "DC3", "DB2", "DB3", "N,C2", "N", "DN", "C4", "B4x1", "B1x2", "B2x2:1f", "B3x2:1f", "B3x3:0f"])
}

pub struct Set {
    seen: BTreeSet<String>,
    pub list: Vec<(SysCfg, RunOpts)>,
}
impl Set {
    pub fn new() -> Self {
        Set { seen: BTreeSet::new(), list: vec![] }
    }
    pub fn add(&mut self, cfg: SysCfg, o: RunOpts) {
        let mut cfg = cfg;
        // thread order is irrelevant for an unfrozen system: canonical order of plans
        if o.freeze.is_none() {
            cfg.plans.sort_by_key(|pl| show_plans(&[pl.clone()]));
        }
        let key = format!("{}{}", cfg.cli(), o.cli());
        if self.seen.insert(key) {
            self.list.push((cfg, o));
        }
    }
    /// all unordered pairs of `a` x `b`
    pub fn pairs(&mut self, kinds: &[K], lens: &[usize], a: &[Plan], b: &[Plan], fins: &[Final], o: &RunOpts) {
        for &kind in kinds {
            for &len in lens {
                if kind == K::Array && len > 6 {
                    continue;
                }
                for x in a {
                    for y in b {
                        for &fin in fins {
                            self.add(SysCfg { kind, len, plans: vec![x.clone(), y.clone()], fin, fault: Fault::None }, o.clone());
                        }
                    }
                }
            }
        }
    }
    /// all multisets of four plans from `m` (counter-only kinds: every operation is one atomic step)
    pub fn quads(&mut self, kinds: &[K], lens: &[usize], m: &[Plan], fins: &[Final], o: &RunOpts) {
        for &kind in kinds {
            for &len in lens {
                for i in 0..m.len() {
                    for j in i..m.len() {
                        for k in j..m.len() {
                            for l in k..m.len() {
                                for &fin in fins {
                                    self.add(SysCfg { kind, len, plans: vec![m[i].clone(), m[j].clone(), m[k].clone(), m[l].clone()], fin, fault: Fault::None }, o.clone());
                                }
                            }
                        }
                    }
                }
            }
        }
    }
    /// all multisets of three plans from `m`
    pub fn triples(&mut self, kinds: &[K], lens: &[usize], m: &[Plan], fins: &[Final], o: &RunOpts) {
        for &kind in kinds {
            for &len in lens {
                for i in 0..m.len() {
                    for j in i..m.len() {
                        for k in j..m.len() {
                            for &fin in fins {
                                self.add(SysCfg { kind, len, plans: vec![m[i].clone(), m[j].clone(), m[k].clone()], fin, fault: Fault::None }, o.clone());
                            }
                        }
                    }
                }
            }
        }
    }
}

pub fn counter_kinds() -> Vec<K> {
    ALL_KINDS.iter().copied().filter(|k| k.counter_only()).collect()
}
pub fn wrapper_kinds() -> Vec<K> {
    ALL_KINDS.iter().copied().filter(|k| k.wrapper()).collect()
}
pub fn consuming_kinds() -> Vec<K> {
    ALL_KINDS.iter().copied().filter(|k| k.consuming()).collect()
}
pub fn adaptor_kinds() -> Vec<K> {
    ALL_KINDS.iter().copied().filter(|k| k.adaptor()).collect()
}

fn complete2() -> RunOpts {
    RunOpts::default()
}
fn bounded(b: usize) -> RunOpts {
    RunOpts { bound: Some(b), ..RunOpts::default() }
}

fn cat(a: &[Plan], b: &[Plan]) -> Vec<Plan> {
    let mut v = a.to_vec();
    v.extend(b.iter().cloned());
    v
}

pub fn for_property(prop: &str, tier: Tier) -> Vec<(SysCfg, RunOpts)> {
    let q = tier == Tier::Quick;
    let all: Vec<K> = ALL_KINDS.to_vec();
    let main_kinds: Vec<K> = all.iter().copied().filter(|k| *k != K::IterNonFused).collect();
    let l04: Vec<usize> = if q { (0..=4).collect() } else { (0..=5).collect() };
    let l03: Vec<usize> = (0..=3).collect();
    let l13: Vec<usize> = (1..=3).collect();
    let d = [Final::Drop];
    let b3 = if q { 2 } else { 3 };
    let mut s = Set::new();
    let menu3 = menu(&["DN", "DC2", "DB2", "FE2", "N,DC3", "C2,DN"]);
    let menu3b = menu(&["N,N", "C2,N", "B2x2", "DN", "S,N", "L"]);
    match prop {
        "C01" => {
            let m = cat(&drains(), &prefixed());
            s.pairs(&main_kinds, if q { &l03 } else { &l04 }, &m, &m, &d, &complete2());
            if q {
                s.pairs(&counter_kinds(), &[4], &m, &m, &d, &complete2());
            }
            s.triples(&main_kinds, if q { &[2, 3] } else { &[2, 3, 4] }, &menu3, &d, &bounded(b3));
            if !q {
                // four threads, complete exploration, on the kinds whose operations are single atomic steps
                s.quads(&counter_kinds(), &[3, 5], &menu(&["DN", "DC2", "DB3", "EF2", "N,DC3", "C2:1,DI"]), &d, &complete2());
            }
        }
        "C02" => {
            let m = menu(&["DI", "DW", "DC2", "DC3", "DB2", "DB3", "EF1", "EF2", "EF3", "I,DB2", "C3,DI", "C2:1,DC2", "B3x1,DC2", "I,I", "C2", "C3,N", "B2x2:1", "V,W", "S,I,C2", "I,S,W", "B2x2:1f", "B3x2:1f"]);
            s.pairs(&main_kinds, if q { &l03 } else { &l04 }, &m, &m, &d, &complete2());
            s.triples(&main_kinds, &[3], &menu(&["DI", "DC2", "EF2", "I,DB2", "W,W"]), &d, &bounded(b3));
        }
        "C03" => {
            let m = chunky();
            s.pairs(&main_kinds, if q { &l03 } else { &l04 }, &m, &m, &d, &complete2());
            if q {
                s.pairs(&counter_kinds(), &[4, 5], &m, &m, &d, &complete2());
            }
            s.triples(&main_kinds, &[3, 4], &menu(&["C2", "B2x2:1", "N", "DC3", "B3x1"]), &d, &bounded(b3));
            // a wrapped iterator that yields again after None: a chunk never contains what a sequential use would not yield
            let nf = menu(&["DC2", "DB2", "C2,N", "C3,DI", "B2x2", "B3x1,N", "DC3", "C2:1,DC2", "B2x2:1f"]);
            s.pairs(&[K::IterNonFused], &l03, &nf, &nf, &d, &complete2());
            s.triples(&[K::IterNonFused], &[1, 2], &menu(&["DC2", "C2,N", "DB2", "C3"]), &d, &bounded(b3));
        }
        "C04" => {
            let m = cat(&stops(), &menu(&["DN", "DC2", "DB2", "DW", "N,DC3", "C2,DN"]));
            s.pairs(&main_kinds, if q { &l03 } else { &l04 }, &m, &m, &d, &complete2());
            if q {
                s.pairs(&counter_kinds(), &[4, 5], &m, &m, &d, &complete2());
            }
            s.triples(&main_kinds, &[3, 4], &menu(&["N,N", "C2,N", "B2x2", "I", "DN"]), &d, &bounded(b3));
            // a wrapped iterator that yields again after None: the concurrent iterator must stop where a sequential use stops
            let nf = menu(&["DN", "DC2", "DB2", "C2,N", "C3,DI", "B2x2", "B3x1,N", "N,N", "FE2", "DC3"]);
            s.pairs(&[K::IterNonFused], &l03, &nf, &nf, &d, &complete2());
            s.triples(&[K::IterNonFused], &[1, 2], &menu(&["DC2", "C2,N", "DB2", "N,N"]), &d, &bounded(b3));
            if !q {
                s.quads(&counter_kinds(), &[4, 6], &menu(&["N,N", "C2,N", "B2x2:1f", "I,C3", "DN", "W"]), &d, &complete2());
            }
        }
        "C05" => {
            let m = cat(&after_end(), &menu(&["DN", "DC3", "DB2", "N,N", "C2", "DN,S,N", "DC3,S,C3,L", "S"]));
            // (the inexact-hint and copied wrappers run the same waiting protocol: thorough tier only)
            let k5: Vec<K> = if q { all.iter().copied().filter(|k| !matches!(k, K::IterInexact | K::CopiedIter | K::ClonedVecRef)).collect() } else { all.clone() };
            s.pairs(&k5, if q { &l03 } else { &l04 }, &after_end(), &m, &d, &complete2());
            s.triples(&k5, &[1, 2], &menu(&["DN,N", "DB2,C2,L", "DC2,N", "N"]), &d, &bounded(b3));
        }
        "C06" => {
            let m = cat(&skips(), &cat(&stops(), &menu(&["DN", "DC2", "DB2", "L,H", "DW"])));
            s.pairs(&main_kinds, if q { &l03 } else { &l04 }, &skips(), &m, &d, &complete2());
            s.pairs(&main_kinds, &[2, 3], &skips(), &menu(&["N,N", "C2"]), &[Final::Seq], &complete2());
            s.triples(&main_kinds, &[2, 3], &menu(&["S,N", "N,N", "C2,N", "S", "DB2"]), &d, &bounded(b3));
        }
        "C07" => {
            let w = wrapper_kinds();
            let m = cat(&menu(&["N,N", "C2,N", "B2x2", "I,S,N", "S,N,N", "B2x1:1,N", "C3", "V,W"]), &cat(&drains(), &prefixed()));
            s.pairs(&w, if q { &l03 } else { &l04 }, &m, &m, &d, &complete2());
            s.triples(&w, &[2, 3], &menu3, &d, &bounded(b3));
            s.triples(&w, &[2, 3], &menu3b, &d, &bounded(b3));
            // storage slots of consuming known-size kinds
            s.pairs(&[K::Vec, K::Array], &l03, &m, &m, &d, &complete2());
        }
        "C08" | "C15" => {
            let c = consuming_kinds();
            let m = cat(&stops(), &menu(&["DN", "DC2", "DB2", "FE2", "S", "N,S", "C2:1,S,N", "C3:0", "B3x2:1"]));
            s.pairs(&c, if q { &l03 } else { &l04 }, &m, &m, &[Final::Drop, Final::Seq, Final::SeqK(1)], &complete2());
            s.triples(&c, &[3], &menu(&["N", "C2:1", "B2x1:1", "S", "DN"]), &[Final::Drop, Final::Seq], &bounded(b3));
        }
        "C09" => {
            // (a) no reachable hang state in ordinary systems
            let m = cat(&menu(&["DN", "DC2", "DB3", "FE2", "N,DC3", "C2,DN"]), &cat(&stops(), &cat(&skips(), &after_end())));
            // waiting only exists in the ticket protocol of the wrapper kinds: full menu there, a reduced one elsewhere
            let wfull: Vec<K> = if q { vec![K::IterUnk, K::ClonedIter] } else { wrapper_kinds() };
            s.pairs(&wfull, if q { &l13 } else { &l04 }, &m, &m, &d, &complete2());
            let mw = menu(&["DN", "DC2", "DB3", "FE2", "C2,DN", "N", "B2x2:1", "S,N,N", "N,S,C2,N", "DN,N,C2,L", "DB2,N,L,C3", "C2:1", "B3x1:0,N", "S,DB2", "I,S,FE2", "FE2,C2,H"]);
            s.pairs(&wrapper_kinds(), if q { &l13 } else { &l04 }, &mw, &mw, &d, &complete2());
            let mc = menu(&["DN", "DC2", "DB3", "FE2", "C2,DN", "N", "B2x2:1", "S,N,N", "N,S,C2,N", "DN,N,C2,L", "DB2,N,L,C3"]);
            s.pairs(&counter_kinds(), if q { &l13 } else { &l04 }, &mc, &mc, &d, &complete2());
            s.triples(&all, &[2, 3], &menu3b, &d, &bounded(b3));
            // hangs after a panic of the wrapped iterator / a clone / a closure are progress violations too
            for &kind in &wrapper_kinds() {
                for len in [1usize, 2] {
                    for pl in [["N,N", "N,N"], ["C2,N", "DN"], ["B2x2", "DC2"], ["DC2", "N"], ["FE2", "DN"]] {
                        for k in 0..=len as u32 {
                            s.add(SysCfg { kind, len, plans: pl.iter().map(|x| p(x)).collect(), fin: Final::Drop, fault: Fault::Next(k) }, complete2());
                        }
                    }
                }
            }
            // (b) freeze adversary
            let fm = menu(&["N,N", "C2,N", "B2x2", "DN", "S,N", "L,N", "FE2", "DC3"]);
            for &kind in &all {
                for &len in &[1usize, 3] {
                    for a in &fm {
                        for b in &fm {
                            for c in &(if q { menu(&["N,N", "DB2"]) } else { menu(&["N,N", "C2", "DB2"]) }) {
                                let plans = vec![a.clone(), b.clone(), c.clone()];
                                // freeze thread 0 after k operations, for every k up to a generous count
                                for k in (0..=6u32).filter(|k| !q || *k != 4 && *k != 6) {
                                    let o = RunOpts { freeze: Some((0, k)), expect_hang: kind.wrapper(), bound: if kind.wrapper() { Some(1) } else { None }, ..RunOpts::default() };
                                    if kind.wrapper() && !(len == 3 && k <= 3) {
                                        continue;
                                    }
                                    s.add(SysCfg { kind, len, plans: plans.clone(), fin: Final::Drop, fault: Fault::None }, o);
                                }
                            }
                        }
                    }
                }
            }
        }
        "C10" => {
            let m = cat(&stops(), &cat(&skips(), &menu(&["DN", "DC3", "C4", "B4x1", "B2x3:1", "C3:0,N"])));
            s.pairs(&main_kinds, if q { &l03 } else { &l04 }, &m, &m, &[Final::Seq], &complete2());
            s.pairs(&main_kinds, &[3], &stops(), &stops(), &[Final::SeqK(1)], &complete2());
            s.triples(&main_kinds, &[3, 4], &menu(&["N", "C2", "B2x1", "S,N", "I,I"]), &[Final::Seq], &bounded(b3));
        }
        "C11" => {
            let m = cat(&lens(), &cat(&stops(), &cat(&skips(), &menu(&["DN", "DC2", "DB2", "FE2", "DN,N,L", "DB2,H"]))));
            s.pairs(&all, if q { &l03 } else { &l04 }, &lens(), &m, &d, &complete2());
            s.triples(&all, &[2, 3], &menu(&["L,N,L", "H", "C2,L", "S,H", "DN"]), &d, &bounded(b3));
        }
        "C12" => {
            let m = cat(&foreach_plans(), &menu(&["DN", "DC2", "DB2", "N,N", "C2", "I,FE2", "C2,EF3", "N,FO2"]));
            s.pairs(&main_kinds, if q { &l03 } else { &l04 }, &foreach_plans(), &m, &d, &complete2());
            if q {
                s.pairs(&counter_kinds(), &[4, 5], &foreach_plans(), &m, &d, &complete2());
            }
            s.triples(&main_kinds, &[3, 4], &menu(&["FE1", "EF2", "FO3", "DN", "FE2"]), &d, &bounded(b3));
            // a wrapped iterator that yields again after None: the closures only see what a sequential use would yield
            let nf = menu(&["FE2", "EF2", "FO2", "FE3", "EF1", "DC2", "DB2", "C2,N", "N,N"]);
            s.pairs(&[K::IterNonFused], &l03, &menu(&["FE2", "EF2", "FO2", "FE3", "EF1"]), &nf, &d, &complete2());
        }
        "C13" => {
            let a = adaptor_kinds();
            let m = cat(&cat(&drains(), &prefixed()), &cat(&stops(), &cat(&skips(), &lens())));
            s.pairs(&a, if q { &l03 } else { &l04 }, &m, &m, &[Final::Seq], &complete2());
            s.triples(&a, &[2, 3], &menu3, &[Final::Seq], &bounded(b3));
        }
        "C18" => {
            let mut m = menu(&["N,N", "DN", "C2,N", "DC2", "B2x2", "DB2", "FE1", "FE2", "EF2", "FO2", "I,DB3", "L,N", "S", "N,S,N"]);
            if !q {
                m.extend(menu(&["C3:1,N", "B3x1:1,DN", "FE3", "EF1", "V,W", "B2x2:1f", "FO1", "DC3"]));
            }
            for &kind in &all {
                for len in 1..=(if q { 3usize } else { 4usize }) {
                    for a in &m {
                        for b in &m {
                            let mut faults: Vec<Fault> = vec![];
                            if kind.wrapper() {
                                for k in 0..=len as u32 {
                                    faults.push(Fault::Next(k));
                                }
                            }
                            if kind.clones() {
                                for k in 0..len as u32 {
                                    faults.push(Fault::Clone(k));
                                }
                            }
                            let has_fe = |pl: &Plan| pl.iter().any(|o| matches!(o, Op::ForEach(_) | Op::EnumForEach(_) | Op::Fold(_)));
                            if has_fe(a) || has_fe(b) {
                                for k in 0..len as u32 {
                                    faults.push(Fault::Closure(k));
                                }
                            }
                            for f in faults {
                                for fin in [Final::Drop, Final::Seq] {
                                    if fin == Final::Seq && !kind.consuming() {
                                        continue;
                                    }
                                    s.add(SysCfg { kind, len, plans: vec![a.clone(), b.clone()], fin, fault: f }, complete2());
                                }
                            }
                        }
                    }
                }
            }
            // three threads: two waiters behind a panicking server
            for &kind in &wrapper_kinds() {
                for k in 0..=2u32 {
                    for pl in [["N,N", "N,N", "N"], ["C2,N", "N,N", "B2x1"], ["DN", "N", "C2"]] {
                        s.add(SysCfg { kind, len: 2, plans: pl.iter().map(|x| p(x)).collect(), fin: Final::Drop, fault: Fault::Next(k) }, bounded(b3));
                    }
                    if !q {
                        for pl in [["DB2", "DN", "S"], ["FE2", "N,N", "C2"], ["DC2", "DC2", "DN"], ["B2x2:1", "I,I", "L,N"]] {
                            for len in [2usize, 3] {
                                s.add(SysCfg { kind, len, plans: pl.iter().map(|x| p(x)).collect(), fin: Final::Drop, fault: Fault::Next(k) }, bounded(b3));
                            }
                        }
                    }
                }
            }
        }
        "C16" => {
            // zero-sized and extreme chunk sizes racing with ordinary pulls: the iterator must be left unchanged /
            // behave mathematically under every interleaving as well
            // (the cumulative number of requested positions stays below usize::MAX in every system: at most one chunk
            // of usize::MAX/2 per system - the position counter is a finite machine word, cf. C01/C05)
            let z = menu(&["C0,DN", "C0,C0,DC2", "C0,N,C0", "C0,DB2", "N,C0,I"]);
            let m = cat(&z, &menu(&["DN", "DC2", "DB2", "N,N", "C2", "S,N", "C9223372036854775807:1,DN", "N,C9223372036854775807"]));
            s.pairs(&main_kinds, &l03, &z, &m, &d, &complete2());
        }
        "C19" => {
            // clone() racing with pulls on the original (by-reference kinds and ranges are Clone): the clone starts at a
            // position the original had during the call, delivers exactly the rest, and neither disturbs the other
            let ck = [K::Slice, K::VecRef, K::Range];
            let a = menu(&["K", "N,K", "K,N", "K,K", "C2,K,N", "DN,K", "S,K"]);
            let b = menu(&["DN", "DC2", "N,N", "C3", "DB2", "S,N", "N,K", "I,C2:1", "C9223372036854775807:1,N"]);
            s.pairs(&ck, &[0, 1, 2, 3], &a, &b, &d, &complete2());
            if !q {
                let a3 = menu(&["K", "N,K"]);
                for &kind in &ck {
                    for x in &a3 {
                        for (y, z) in [("DN", "DC2"), ("N,N", "S"), ("K", "DN"), ("C2", "I,I")] {
                            s.add(SysCfg { kind, len: 3, plans: vec![x.clone(), p(y), p(z)], fin: Final::Drop, fault: Fault::None }, bounded(b3));
                        }
                    }
                }
            }
        }
        "C13P" => {
            // the same closed systems on an adaptor and on its underlying reference-yielding iterator: the driver
            // compares the complete outcome sets (which thread received which positions, query answers, remainder)
            let ks = [K::Slice, K::ClonedSlice, K::CopiedSlice, K::VecRef, K::ClonedVecRef, K::RefIter, K::ClonedIter, K::RefIterUnk, K::CopiedIter];
            let m = menu(&["FE2", "EF3", "FO2", "FE1", "DB2", "DC2", "DN", "N,N", "C2:1,I", "B2x1:1,N", "S,N", "L,C3,H", "C0,N"]);
            s.pairs(&ks, &[2, 3, 4], &m, &m, &[Final::Seq], &complete2());
            if !q {
                let m3 = menu(&["FE2", "FO3", "DB2", "N,S", "C2", "EF1", "L,N", "C3:1"]);
                for &kind in &ks {
                    for len in [3, 4] {
                        for x in &m3 {
                            for y in &m3 {
                                for z in &m3 {
                                    s.add(SysCfg { kind, len, plans: vec![x.clone(), y.clone(), z.clone()], fin: Final::Seq, fault: Fault::None }, bounded(b3));
                                }
                            }
                        }
                    }
                }
            }
        }
        "C17" => {
            // queries racing with overshooting pulls, skips and drains: outcomes are compared between a build with
            // debug assertions + overflow checks and one without
            let m = menu(&["L", "H", "L,N,L", "H,C2,H", "C3", "C4,L", "B3x1", "B4x2:1f", "DC3", "N,N", "S,H", "FE2", "DB2,L", "I,H"]);
            s.pairs(&all, &[1, 2, 3], &m, &m, &[Final::Seq], &complete2());
        }
        "selftest" => {
            let m = menu(&["N,N", "C2,N", "B2x2", "DN", "S,N", "L,N", "DC2"]);
            s.pairs(&[K::Slice, K::Vec, K::IterExact, K::IterUnk, K::ClonedIter], &[2, 3], &m, &m, &d, &complete2());
        }
        _ => {}
    }
    s.list
}
