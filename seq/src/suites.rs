//! Suites: alphabet x kinds x lengths x depth x terminals, per property (DESIGN.md §5).
use crate::hist::*;
use crate::kinds::*;

pub struct Suite {
    pub name: String,
    pub kinds: Vec<KindId>,
    pub lens: Vec<usize>,
    pub alphabet: Vec<SOp>,
    pub depth: usize,
    pub terms: Vec<Term>,
    /// run every history also on the underlying reference-yielding iterator (C13)
    pub pair: bool,
    pub allow_zero: bool,
}

impl Suite {
    /// work units: (kind, len, first symbol) plus the empty history per (kind, len)
    pub fn units(&self) -> Vec<(KindId, usize, Option<usize>)> {
        let mut u = vec![];
        for &k in &self.kinds {
            for &l in &self.lens {
                if matches!(k, KindId::OArray | KindId::ArrayRef | KindId::ClonedArrayRef | KindId::OArray24) && l > 6 {
                    continue;
                }
                u.push((k, l, None));
                for i in 0..self.alphabet.len() {
                    u.push((k, l, Some(i)));
                }
            }
        }
        u
    }
}

pub const MAIN: [&str; 15] = ["N", "I", "C2:a", "C3:1", "C1:0", "HC2", "HN1", "HD", "BN2", "BXa", "BX1", "BD", "S", "EF2", "V"];

fn kinds_where(f: impl Fn(&crate::exec::KindInfo) -> bool) -> Vec<KindId> {
    ALL_KINDS.iter().copied().filter(|k| f(&k.info())).collect()
}
fn small_kinds() -> Vec<KindId> {
    // every kind except the element-size variants
    ALL_KINDS.iter().copied().filter(|k| !matches!(k, KindId::OVec24 | KindId::OArray24 | KindId::Iter24)).collect()
}

pub fn suite(name: &str, thorough: bool) -> Suite {
    let t3 = vec![Term::Drop, Term::Seq(ALL), Term::Seq(1)];
    let l04: Vec<usize> = (0..=4).collect();
    let l06: Vec<usize> = (0..=6).collect();
    let lens = if thorough { l06.clone() } else { l04.clone() };
    let mut s = Suite { name: name.to_string(), kinds: small_kinds(), lens, alphabet: alphabet(&MAIN), depth: if thorough { 6 } else { 5 }, terms: t3.clone(), pair: false, allow_zero: false };
    match name {
        "main" | "C04" | "C17" => {
            if name == "C04" {
                s.alphabet = alphabet(&["N", "I", "C2:a", "C3:1", "C1:0", "HC2", "HN1", "HD", "BN2", "BXa", "BX1", "BD", "S", "EF2", "V", "W", "FE1", "FO2"]);
                s.depth = if thorough { 5 } else { 4 };
            }
            if name == "C17" {
                s.kinds = ALL_KINDS.to_vec();
                s.depth = if thorough { 5 } else { 4 };
                s.terms = vec![Term::Drop, Term::Seq(ALL), Term::Seq(1), Term::Seq(0)];
            }
        }
        "C03" => {
            s.alphabet = alphabet(&["N", "C1:a", "C2:a", "C2:1", "C3:0", "C3:a", "CL0:a", "CL1:a", "CL1:1", "BN1", "BN2", "BN3", "BNL1", "BXa", "BX1", "BX0", "S", "HC3", "HN1", "HD"]);
            s.depth = if thorough { 5 } else { 4 };
            s.terms = vec![Term::Drop, Term::Seq(ALL)];
        }
        "C05" => {
            s.alphabet = alphabet(&["N", "I", "C2:a", "C3:1", "CL1:0", "BN2", "BXa", "BX1", "BD", "EF2", "FE1", "V", "FO3", "L"]);
            s.terms = vec![Term::Drop, Term::Seq(ALL)];
        }
        "C06" => {
            s.alphabet = alphabet(&["S", "N", "I", "C2:a", "C3:1", "BN2", "BXa", "BX1", "BD", "HC2", "HN1", "HD", "EF2", "H"]);
        }
        "C08" => {
            s.kinds = kinds_where(|k| k.consuming);
            s.terms = vec![Term::Drop, Term::Seq(ALL), Term::Seq(1), Term::Seq(0)];
        }
        "C15" => {
            s.kinds = kinds_where(|k| k.consuming);
            s.terms = vec![Term::Drop, Term::Seq(ALL), Term::Seq(1), Term::Seq(0)];
            s.depth = if thorough { 5 } else { 4 };
        }
        "C10" => {
            s.alphabet = alphabet(&["N", "I", "C2:a", "C3:1", "CL1:a", "C1:0", "HC2", "HN1", "HD", "BN2", "BN3", "BXa", "BX1", "BD", "S", "EF2"]);
            s.terms = vec![Term::Seq(ALL), Term::Seq(1)];
            s.depth = if thorough { 5 } else { 4 };
        }
        "C11" => {
            s.alphabet = alphabet(&["N", "I", "C2:a", "C3:1", "CL1:a", "BN2", "BXa", "BX1", "BD", "S", "EF2", "FE1", "L", "H"]);
            s.terms = vec![Term::Drop];
        }
        "C12" => {
            s.alphabet = alphabet(&["FE1", "FE2", "FE3", "EF1", "EF2", "EF3", "FO1", "FO2", "FO3", "N", "C2:1", "BN2", "BX1", "S"]);
            s.terms = vec![Term::Drop, Term::Seq(ALL)];
            s.depth = if thorough { 5 } else { 4 };
        }
        "C13" => {
            s.kinds = kinds_where(|k| k.adaptor);
            s.pair = true;
            s.alphabet = alphabet(&["N", "I", "C2:a", "C3:1", "C1:0", "HC2", "HN1", "HD", "BN2", "BXa", "BX1", "BD", "S", "EF2", "V", "L", "H", "FO2"]);
            s.depth = if thorough { 5 } else { 4 };
        }
        "C02" => {
            s.alphabet = alphabet(&["I", "W", "C2:a", "C3:1", "BN2", "BN3", "BXa", "BX1", "EF1", "EF2", "EF3", "N", "S", "HC2", "HN1"]);
            s.terms = vec![Term::Drop];
            s.depth = if thorough { 5 } else { 4 };
        }
        _ => {}
    }
    s
}
