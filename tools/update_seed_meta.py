#!/usr/bin/env python3
"""Fill seeded/<id>/meta.json 'detected_by' from result lines of tools/run_seeds.sh / try_mutant.sh (files given as arguments)."""
import sys, re, json, os
res = {}
for f in sys.argv[1:]:
    for line in open(f):
        m = re.match(r"(\S+)/patch\.diff (C\d+) rc=(\d+) violations=(\d+) wall=([\d.]+)s first:\s*(.*)", line)
        if not m:
            continue
        sid, prop, rc, nv, wall, first = m.groups()
        res.setdefault(sid, {})[prop] = {"exit": int(rc), "violation_records": int(nv), "first": first.strip()[:300]}
for sid, r in sorted(res.items()):
    p = f"/verif/seeded/{sid}/meta.json"
    if not os.path.exists(p):
        continue
    meta = json.load(open(p))
    det = meta.get("detected_by") or {}
    det.update(r)
    meta["detected_by"] = det
    meta["how_checked"] = "tools/try_mutant.sh: git apply to /repo, ./check <property> --tier quick, git checkout (exit 1 + VIOLATION line = detected)"
    json.dump(meta, open(p, "w"), indent=1)
    print(sid, {k: v["exit"] for k, v in det.items()})
