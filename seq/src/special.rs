//! Special runners: the low-level safe API (C14, call-sequence half) and several live iterators over
//! one collection (C19).
use crate::elem::*;
use crate::exec::*;
use crate::hist::*;
use orx_concurrent_iter::iter::atomic_iter::AtomicIter;
use orx_concurrent_iter::*;

/// no reference cursor here: the oracle is the ownership ledger alone
pub fn run_lowlevel<I>(env: &mut Env, it: I, hist: &[SOp], term: Term)
where
    I: ConcurrentIter + AtomicIter<<I as ConcurrentIter>::Item>,
    <I as ConcurrentIter>::Item: Obs,
{
    let lowlevel_before = |upto: usize| hist[..upto.min(hist.len())].iter().any(|o| matches!(o, SOp::Get(_) | SOp::CtrStore(_)));
    fn own<T: Obs>(env: &mut Env, x: T, raw: bool) {
        let s = x.seen();
        env.obs.push(s.key as u64);
        if !s.valid {
            env.fail(T_OWNERS, if raw { "garbage-via-get-or-counter-store" } else { "garbage" }, format!("a delivered element is destroyed / uninitialised memory (key {})", s.key));
        } else if let Some(p) = pos_of(s.key) {
            env.handed[p] += 1;
            if env.handed[p] > 1 {
                env.fail(T_OWNERS, if raw { "two-owners-via-get-or-counter-store" } else { "two-owners" }, format!("the element of position {p} was handed out {} times by safe calls", env.handed[p]));
            }
        }
        drop(x);
    }
    {
        let itr = &it;
        let mut buf = None;
        for (i, op) in hist.iter().enumerate() {
            if !env.ok() {
                break;
            }
            env.step = i;
            crate::CUR_STEP.store(i, std::sync::atomic::Ordering::Relaxed);
            env.obs.push(MK_STEP | i as u64);
            let raw = lowlevel_before(i + 1);
            match *op {
                SOp::Next => {
                    if let Some(x) = subj(|| itr.next()) {
                        own(env, x, raw);
                    }
                }
                SOp::Chunk(n, _) => {
                    let n = resolve(n, env.len);
                    if let Some(c) = subj(|| itr.next_chunk(n)) {
                        for x in c.values {
                            own(env, x, raw);
                        }
                    }
                }
                SOp::BufNew(n) => {
                    let n = resolve(n, env.len).max(1);
                    if let Some(b) = buf.take() {
                        subj(|| drop(b));
                    }
                    buf = Some(subj(|| itr.buffered_iter(n)));
                }
                SOp::BufNext(_) => {
                    if let Some(bi) = buf.as_mut() {
                        if let Some(c) = subj(|| bi.next()) {
                            for x in c.values {
                                own(env, x, raw);
                            }
                        }
                    }
                }
                SOp::Skip => subj(|| itr.skip_to_end()),
                SOp::Get(j) => {
                    let j = resolve(j, env.len);
                    if let Some(x) = subj(|| AtomicIter::get(itr, j)) {
                        own(env, x, raw);
                    }
                }
                SOp::GetPast => {
                    // a position that was already yielded: the element at that position cannot be delivered again,
                    // and nothing else may be delivered under that index
                    let d: usize = env.handed.iter().map(|x| *x as usize).sum();
                    if d > 0 {
                        if let Some(x) = subj(|| AtomicIter::get(itr, d - 1)) {
                            let s = x.seen();
                            env.fail(&["C02", "C14"], "stale-get", format!("get({}) for an already yielded position delivered an element (key {})", d - 1, s.key));
                            drop(x);
                        }
                    }
                }
                SOp::FetchOne => {
                    if let Some(x) = subj(|| itr.fetch_one()) {
                        own(env, x.value, raw);
                    }
                }
                SOp::FetchN(n) => {
                    let n = resolve(n, env.len);
                    if let Some(c) = subj(|| itr.fetch_n(n)) {
                        for x in c.values {
                            own(env, x, raw);
                        }
                    }
                }
                SOp::Progress(n) => {
                    let n = resolve(n, env.len);
                    let r = subj(|| itr.progress_and_get_begin_idx(n));
                    env.obs.push(r.map_or(u64::MAX, |x| x as u64));
                }
                SOp::EarlyExit => subj(|| itr.early_exit()),
                SOp::CtrStore(v) => {
                    let v = resolve(v, env.len);
                    subj(|| itr.counter().store(v));
                }
                SOp::CtrAdd(n) => {
                    let n = resolve(n, env.len);
                    let _ = subj(|| itr.counter().fetch_and_add(n));
                }
                SOp::CtrInc => {
                    let _ = subj(|| itr.counter().fetch_and_increment());
                }
                _ => {}
            }
        }
        if let Some(b) = buf.take() {
            subj(|| drop(b));
        }
    }
    env.step = hist.len();
    crate::CUR_STEP.store(hist.len(), std::sync::atomic::Ordering::Relaxed);
    env.obs.push(MK_TERM);
    let raw = lowlevel_before(hist.len());
    match term {
        Term::Drop => subj(|| drop(it)),
        Term::Seq(k) => {
            let mut seq = subj(|| it.into_seq_iter());
            let mut j = 0;
            while j < k && j < NPOS {
                match subj(|| seq.next()) {
                    Some(x) => own(env, x, raw),
                    None => break,
                }
                j += 1;
            }
            subj(|| drop(seq));
        }
    }
    // every element destroyed at most once (leaks are not this property's business)
    LEDGER.with(|l| {
        env.obs.push(MK_LEDGER | l.garbage.get() as u64);
        if !env.ok() {
            return;
        }
        let twice: Vec<(usize, u8)> = (0..env.len.min(NPOS)).filter(|&p| l.dropped[p].get() > 1).map(|p| (p, l.dropped[p].get())).collect();
        if !twice.is_empty() || l.garbage.get() != 0 {
            env.fail(T_OWNERS, if raw { "two-owners-via-get-or-counter-store" } else { "two-owners" }, format!("elements destroyed more than once (position, times): {twice:?}; destructor runs on dead memory: {}", l.garbage.get()));
        }
    });
}

/// up to three live iterators (fresh ones and clones) over one collection
pub fn run_multi<I>(env: &mut Env, mk: &dyn Fn() -> I, hist: &[SOp], term: Term)
where
    I: ConcurrentIter + Clone,
    I::Item: Obs,
{
    let mut its: Vec<I> = vec![subj(mk)];
    let mut models: Vec<Model> = vec![Model::new(env.len)];
    let mut cur = 0usize;
    for (i, op) in hist.iter().enumerate() {
        if !env.ok() {
            break;
        }
        env.step = i;
        crate::CUR_STEP.store(i, std::sync::atomic::Ordering::Relaxed);
        env.obs.push(MK_STEP | i as u64);
        env.m = models[cur];
        let itr = &its[cur];
        match *op {
            SOp::NewIter => {
                if its.len() < 3 {
                    its.push(subj(mk));
                    models.push(Model::new(env.len));
                }
                continue;
            }
            SOp::CloneCur => {
                if its.len() < 3 {
                    let c = subj(|| its[cur].clone());
                    its.push(c);
                    // a clone starts at its original's current position
                    models.push(models[cur]);
                }
                continue;
            }
            SOp::Sel(j) => {
                if j < its.len() {
                    cur = j;
                }
                env.obs.push(cur as u64);
                continue;
            }
            SOp::Next => {
                let r = subj(|| itr.next());
                env.single("next", r.map(|v| (None, v)));
            }
            SOp::IdVal => {
                let r = subj(|| itr.next_id_and_value());
                env.single("next_id_and_value", r.map(|x| (Some(x.idx), x.value)));
            }
            SOp::Chunk(n, k) => {
                let n = resolve(n, env.len);
                match subj(|| itr.next_chunk(n)) {
                    Some(c) => {
                        let mut values = c.values;
                        let l = values.len();
                        if let Some((b, e)) = env.chunk_shape("next_chunk", n, Some((c.begin_idx, l)), true) {
                            let mut done = 0;
                            env.consume("next_chunk", &mut values, b, e, &mut done, if k == ALL { e - b + 1 } else { k });
                        }
                    }
                    None => {
                        env.chunk_shape("next_chunk", n, None, true);
                    }
                }
            }
            SOp::BufNew(n) => {
                // one buffered pull on a fresh buffered iterator
                let n = resolve(n, env.len).max(1);
                let mut bi = subj(|| itr.buffered_iter(n));
                match subj(|| bi.next()) {
                    Some(c) => {
                        let mut values = c.values;
                        let l = values.len();
                        if let Some((b, e)) = env.chunk_shape("buffered next", n, Some((c.begin_idx, l)), false) {
                            let mut done = 0;
                            env.consume("buffered chunk", &mut values, b, e, &mut done, e - b + 1);
                        }
                    }
                    None => {
                        env.chunk_shape("buffered next", n, None, false);
                    }
                };
            }
            SOp::Skip => {
                subj(|| itr.skip_to_end());
                env.m.skipped = true;
            }
            _ => {}
        }
        // the other iterators must not have moved: query all of them
        models[cur] = env.m;
        for (j, it) in its.iter().enumerate() {
            env.m = models[j];
            env.query(it);
        }
        env.m = models[cur];
    }
    env.step = hist.len();
    env.obs.push(MK_TERM);
    // every iterator still delivers exactly its own remainder
    for (j, it) in its.into_iter().enumerate() {
        env.m = models[j];
        match term {
            Term::Drop => subj(|| drop(it)),
            Term::Seq(_) => {
                let seq = subj(|| it.into_seq_iter());
                let exp_b = env.m.cursor.min(env.m.len);
                let mut n = 0;
                for (t, x) in seq.enumerate() {
                    n += 1;
                    if env.ok() && !env.m.skipped {
                        if exp_b + t >= env.len {
                            env.fail(&["C19", "C10"], "remainder", format!("iterator #{j}: into_seq_iter yields more than its undelivered elements"));
                        } else {
                            env.take(x, exp_b + t, false);
                        }
                    }
                }
                if env.ok() && !env.m.skipped && n != env.len - exp_b {
                    env.fail(&["C19", "C10"], "remainder", format!("iterator #{j}: into_seq_iter yielded {n} elements, {} are undelivered by this iterator", env.len - exp_b));
                }
            }
        }
    }
    for v in env.qviols.iter_mut() {
        if !v.tags.contains(&"C19") {
            v.tags = &["C19", "C11"];
        }
    }
    // violations of the cursor of one iterator caused by another are independence violations
    if let Some(v) = env.viol.as_mut() {
        if !v.tags.contains(&"C19") {
            v.tags = match v.tags {
                t if t == T_LEN || t == T_LEN_END || t == T_LEN_SKIP => &["C19", "C11"],
                t if t == T_INDEX => &["C19", "C02", "C04"],
                t if t == T_CHUNK => &["C19", "C03", "C04"],
                t if t == T_REVIVE => &["C19", "C05"],
                t if t == T_SKIP => &["C19", "C06"],
                _ => &["C19", "C04"],
            };
        }
    }
}
