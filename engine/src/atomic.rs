//! Drop-in replacements for `std::sync::atomic` types. Every operation is a scheduling point.
pub use std::sync::atomic::Ordering;
use crate::exec::{after_load, after_write, new_loc, on_fence, point, weak_cas_fails_spuriously, Kind};

pub fn fence(order: Ordering) {
    on_fence(order);
    std::sync::atomic::fence(order);
}
pub fn compiler_fence(order: Ordering) {
    std::sync::atomic::compiler_fence(order);
}
pub use std::hint::spin_loop;

fn fail_order_ok(o: Ordering) -> Ordering {
    match o {
        Ordering::Release => Ordering::Relaxed,
        Ordering::AcqRel => Ordering::Acquire,
        x => x,
    }
}

macro_rules! shim_int {
    ($name:ident, $std:ident, $t:ty) => {
        pub struct $name {
            v: std::sync::atomic::$std,
            id: u32,
        }
        impl $name {
            pub fn new(v: $t) -> Self {
                Self { v: std::sync::atomic::$std::new(v), id: new_loc(v as u64) }
            }
            pub fn into_inner(self) -> $t {
                self.v.into_inner()
            }
            pub fn get_mut(&mut self) -> &mut $t {
                self.v.get_mut()
            }
            pub fn load(&self, o: Ordering) -> $t {
                point();
                let r = self.v.load(Ordering::SeqCst);
                after_load(self.id, r as u64, o, Kind::Load);
                r
            }
            pub fn store(&self, x: $t, o: Ordering) {
                point();
                let old = self.v.swap(x, Ordering::SeqCst);
                after_write(self.id, old as u64, x as u64, o, false);
            }
            pub fn swap(&self, x: $t, o: Ordering) -> $t {
                point();
                let old = self.v.swap(x, Ordering::SeqCst);
                after_write(self.id, old as u64, x as u64, o, true);
                old
            }
            pub fn compare_exchange(&self, cur: $t, new: $t, s: Ordering, f: Ordering) -> Result<$t, $t> {
                point();
                let r = self.v.compare_exchange(cur, new, Ordering::SeqCst, Ordering::SeqCst);
                match r {
                    Ok(old) => after_write(self.id, old as u64, new as u64, s, true),
                    Err(v) => after_load(self.id, v as u64, fail_order_ok(f), Kind::CasFail),
                }
                r
            }
            /// the first would-succeed attempt of each thread at this location fails spuriously (see
            /// `weak_cas_fails_spuriously`), later ones behave like the strong version
            pub fn compare_exchange_weak(&self, cur: $t, new: $t, s: Ordering, f: Ordering) -> Result<$t, $t> {
                point();
                let seen = self.v.load(Ordering::SeqCst);
                if seen == cur && weak_cas_fails_spuriously(self.id) {
                    after_load(self.id, seen as u64, fail_order_ok(f), Kind::CasFail);
                    return Err(seen);
                }
                let r = self.v.compare_exchange(cur, new, Ordering::SeqCst, Ordering::SeqCst);
                match r {
                    Ok(old) => after_write(self.id, old as u64, new as u64, s, true),
                    Err(v) => after_load(self.id, v as u64, fail_order_ok(f), Kind::CasFail),
                }
                r
            }
            pub fn fetch_update<F: FnMut($t) -> Option<$t>>(&self, set: Ordering, fetch: Ordering, mut f: F) -> Result<$t, $t> {
                let mut prev = self.load(fetch);
                while let Some(next) = f(prev) {
                    match self.compare_exchange_weak(prev, next, set, fetch) {
                        x @ Ok(_) => return x,
                        Err(next_prev) => prev = next_prev,
                    }
                }
                Err(prev)
            }
            fn rmw(&self, o: Ordering, f: impl Fn($t) -> $t) -> $t {
                point();
                let mut old = self.v.load(Ordering::SeqCst);
                let mut new = f(old);
                while let Err(v) = self.v.compare_exchange(old, new, Ordering::SeqCst, Ordering::SeqCst) {
                    old = v;
                    new = f(old);
                }
                after_write(self.id, old as u64, new as u64, o, true);
                old
            }
            pub fn fetch_and(&self, x: $t, o: Ordering) -> $t {
                self.rmw(o, |a| a & x)
            }
            pub fn fetch_or(&self, x: $t, o: Ordering) -> $t {
                self.rmw(o, |a| a | x)
            }
            pub fn fetch_xor(&self, x: $t, o: Ordering) -> $t {
                self.rmw(o, |a| a ^ x)
            }
            pub fn fetch_nand(&self, x: $t, o: Ordering) -> $t {
                self.rmw(o, |a| !(a & x))
            }
        }
        impl From<$t> for $name {
            fn from(v: $t) -> Self {
                Self::new(v)
            }
        }
        impl Default for $name {
            fn default() -> Self {
                Self::new(Default::default())
            }
        }
        impl std::fmt::Debug for $name {
            fn fmt(&self, f: &mut std::fmt::Formatter<'_>) -> std::fmt::Result {
                std::fmt::Debug::fmt(&self.v, f)
            }
        }
    };
}

macro_rules! shim_arith {
    ($name:ident, $t:ty) => {
        impl $name {
            pub fn fetch_add(&self, x: $t, o: Ordering) -> $t {
                self.rmw(o, |a| a.wrapping_add(x))
            }
            pub fn fetch_sub(&self, x: $t, o: Ordering) -> $t {
                self.rmw(o, |a| a.wrapping_sub(x))
            }
            pub fn fetch_max(&self, x: $t, o: Ordering) -> $t {
                self.rmw(o, |a| a.max(x))
            }
            pub fn fetch_min(&self, x: $t, o: Ordering) -> $t {
                self.rmw(o, |a| a.min(x))
            }
        }
    };
}

shim_int!(AtomicUsize, AtomicUsize, usize);
shim_int!(AtomicIsize, AtomicIsize, isize);
shim_int!(AtomicU64, AtomicU64, u64);
shim_int!(AtomicI64, AtomicI64, i64);
shim_int!(AtomicU32, AtomicU32, u32);
shim_int!(AtomicI32, AtomicI32, i32);
shim_int!(AtomicU16, AtomicU16, u16);
shim_int!(AtomicI16, AtomicI16, i16);
shim_int!(AtomicU8, AtomicU8, u8);
shim_int!(AtomicI8, AtomicI8, i8);
shim_int!(AtomicBool, AtomicBool, bool);
shim_arith!(AtomicUsize, usize);
shim_arith!(AtomicIsize, isize);
shim_arith!(AtomicU64, u64);
shim_arith!(AtomicI64, i64);
shim_arith!(AtomicU32, u32);
shim_arith!(AtomicI32, i32);
shim_arith!(AtomicU16, u16);
shim_arith!(AtomicI16, i16);
shim_arith!(AtomicU8, u8);
shim_arith!(AtomicI8, i8);
