//! Harness-owned sequential iterators wrapped by `ConIterOfIter`: they report every `next()` as a
//! non-atomic write access to one shared cell (happens-before monitor), detect physical overlap,
//! and can inject a panic at their k-th call.
use crate::elem::Elem;
use orx_verif_shim as sh;
use std::cell::Cell;

pub const CELL_PROBE: u32 = 0;
pub const CELL_SLOT0: u32 = 8;

thread_local! {
    static IN_NEXT: Cell<u32> = const { Cell::new(0) };
    static NEXT_CALLS: Cell<u32> = const { Cell::new(0) };
    static NEXT_FAULT_AT: Cell<Option<u32>> = const { Cell::new(None) };
    static POLLED_AFTER_NONE: Cell<u32> = const { Cell::new(0) };
}

pub fn probe_reset(fault_at: Option<u32>) {
    IN_NEXT.with(|c| c.set(0));
    NEXT_CALLS.with(|c| c.set(0));
    NEXT_FAULT_AT.with(|c| c.set(fault_at));
    POLLED_AFTER_NONE.with(|c| c.set(0));
}
/// faults are injected only while the threads run
pub fn disarm_faults() {
    NEXT_FAULT_AT.with(|c| c.set(None));
}
pub fn next_calls() -> u32 {
    NEXT_CALLS.with(|c| c.get())
}
pub fn polled_after_none() -> u32 {
    POLLED_AFTER_NONE.with(|c| c.get())
}

struct InNext;
impl InNext {
    fn enter() -> Self {
        IN_NEXT.with(|c| {
            if c.get() > 0 {
                sh::violation("C07", "overlap", "two executions of the wrapped iterator's next() overlap".to_string());
            }
            c.set(c.get() + 1)
        });
        InNext
    }
}
impl Drop for InNext {
    fn drop(&mut self) {
        IN_NEXT.with(|c| c.set(c.get().saturating_sub(1)));
    }
}

fn on_next(i: usize) {
    sh::cell_access(CELL_PROBE, true, "the wrapped iterator's state");
    sh::note(0x9000 + i as u64);
    let k = NEXT_CALLS.with(|c| {
        let k = c.get();
        c.set(k + 1);
        k
    });
    let fault = NEXT_FAULT_AT.with(|c| {
        if c.get() == Some(k) {
            c.set(None);
            true
        } else {
            false
        }
    });
    if fault {
        // the panic happens in the middle of the call: other threads may run while the wrapped iterator executes
        sh::yield_point();
        panic!("injected fault: wrapped iterator's next() panics");
    }
}

#[derive(Clone, Copy, Debug, PartialEq, Eq)]
pub enum Hint {
    Exact,
    /// (0, Some(n + 3)): honest but inexact
    Inexact,
    /// (0, None)
    Unbounded,
}

/// Owning probe: yields `Elem`s of positions 0..n.
pub struct Probe {
    items: std::vec::IntoIter<Elem>,
    i: usize,
    hint: Hint,
    /// non-fused: after the first `None`, the next poll yields one more (ghost) element
    ghost: Option<Elem>,
    ended: bool,
}
impl Probe {
    pub fn new(items: Vec<Elem>, hint: Hint, nonfused: bool) -> Self {
        Probe { items: items.into_iter(), i: 0, hint, ghost: if nonfused { Some(Elem::ghost(crate::elem::key_of(40))) } else { None }, ended: false }
    }
}
impl Iterator for Probe {
    type Item = Elem;
    fn next(&mut self) -> Option<Elem> {
        let _g = InNext::enter();
        on_next(self.i);
        if self.ended {
            POLLED_AFTER_NONE.with(|c| c.set(c.get() + 1));
            return self.ghost.take();
        }
        match self.items.next() {
            Some(x) => {
                self.i += 1;
                Some(x)
            }
            None => {
                self.ended = true;
                None
            }
        }
    }
    fn size_hint(&self) -> (usize, Option<usize>) {
        // reading the wrapped iterator's state is also a use of it: it must be ordered after every next()
        sh::cell_access(CELL_PROBE, false, "the wrapped iterator's state (size_hint)");
        let n = self.items.len();
        match self.hint {
            Hint::Exact => (n, Some(n)),
            Hint::Inexact => (0, Some(n + 3)),
            Hint::Unbounded => (0, None),
        }
    }
}

/// Reference-yielding probe over a borrowed source (for cloned()/copied() over a wrapped iterator).
pub struct ProbeRef<T: 'static> {
    src: &'static [T],
    i: usize,
    hint: Hint,
}
impl<T> ProbeRef<T> {
    pub fn new(src: &'static [T], hint: Hint) -> Self {
        ProbeRef { src, i: 0, hint }
    }
}
impl<T> Iterator for ProbeRef<T> {
    type Item = &'static T;
    fn next(&mut self) -> Option<&'static T> {
        let _g = InNext::enter();
        on_next(self.i);
        let r = self.src.get(self.i);
        if r.is_some() {
            self.i += 1;
        }
        r
    }
    fn size_hint(&self) -> (usize, Option<usize>) {
        sh::cell_access(CELL_PROBE, false, "the wrapped iterator's state (size_hint)");
        let n = self.src.len() - self.i;
        match self.hint {
            Hint::Exact => (n, Some(n)),
            Hint::Inexact => (0, Some(n + 3)),
            Hint::Unbounded => (0, None),
        }
    }
}
