//! Ledger elements and the observation trait.
use std::cell::RefCell;

pub const MAXLEN: usize = 16;
pub const KEY0: usize = 1000;
pub const KSTEP: usize = 37;
const MAGIC: u32 = 0x5eed_e1e3;
const MAGIC_CLONE: u32 = 0xc10e_e1e3;

/// key of the element at source position `i` (distinct from the index on purpose)
#[inline]
pub fn key_of(i: usize) -> usize {
    KEY0 + KSTEP * i
}
#[inline]
pub fn pos_of(key: usize) -> Option<usize> {
    if key >= KEY0 && (key - KEY0) % KSTEP == 0 && (key - KEY0) / KSTEP < 64 {
        Some((key - KEY0) / KSTEP)
    } else {
        None
    }
}

#[derive(Clone, Debug)]
pub struct Ledger {
    pub dropped: [u16; 64],
    pub clone_made: [u16; 64],
    pub clone_dropped: [u16; 64],
    pub garbage: u32,
    pub clone_calls: u32,
    pub clone_fault_at: Option<u32>,
}

impl Default for Ledger {
    fn default() -> Self {
        Ledger { dropped: [0; 64], clone_made: [0; 64], clone_dropped: [0; 64], garbage: 0, clone_calls: 0, clone_fault_at: None }
    }
}

thread_local! {
    pub static LEDGER: RefCell<Ledger> = RefCell::new(Ledger::default());
}

pub fn ledger_reset(clone_fault_at: Option<u32>) {
    LEDGER.with(|l| {
        let mut l = l.borrow_mut();
        *l = Ledger::default();
        l.clone_fault_at = clone_fault_at;
    });
}
pub fn disarm_clone_fault() {
    LEDGER.with(|l| l.borrow_mut().clone_fault_at = None);
}
pub fn ledger() -> Ledger {
    LEDGER.with(|l| l.borrow().clone())
}

#[derive(Debug)]
pub struct Elem {
    key: u32,
    magic: u32,
}

impl Elem {
    pub fn new(pos: usize) -> Self {
        Elem { key: key_of(pos) as u32, magic: MAGIC }
    }
    /// an element that is not part of the source (non-fused probes yield it after the end)
    pub fn ghost(key: usize) -> Self {
        Elem { key: key as u32, magic: MAGIC }
    }
}

impl Drop for Elem {
    fn drop(&mut self) {
        let (key, magic) = (self.key as usize, self.magic);
        // try_with: destructors may run during thread teardown
        let _ = LEDGER.try_with(|l| {
            let mut l = l.borrow_mut();
            match (pos_of(key), magic) {
                (Some(p), MAGIC) => l.dropped[p] += 1,
                (Some(p), MAGIC_CLONE) => l.clone_dropped[p] += 1,
                _ => l.garbage += 1,
            }
        });
        self.magic = 0xdead_dead;
    }
}

impl Clone for Elem {
    fn clone(&self) -> Self {
        let fault = LEDGER.with(|l| {
            let mut l = l.borrow_mut();
            l.clone_calls += 1;
            if l.clone_fault_at == Some(l.clone_calls - 1) {
                l.clone_fault_at = None;
                return true;
            }
            match pos_of(self.key as usize) {
                Some(p) if self.magic == MAGIC || self.magic == MAGIC_CLONE => l.clone_made[p] += 1,
                _ => l.garbage += 1,
            }
            false
        });
        if fault {
            panic!("injected fault: Clone::clone panics");
        }
        Elem { key: self.key, magic: MAGIC_CLONE }
    }
}

/// What the harness can observe of a delivered item.
pub trait Obs {
    fn key(&self) -> usize;
    /// address of the referenced source element (0 for owned items)
    fn addr(&self) -> usize {
        0
    }
    fn is_clone(&self) -> bool {
        false
    }
    fn valid(&self) -> bool {
        true
    }
}
impl Obs for Elem {
    fn key(&self) -> usize {
        self.key as usize
    }
    fn is_clone(&self) -> bool {
        self.magic == MAGIC_CLONE
    }
    fn valid(&self) -> bool {
        self.magic == MAGIC || self.magic == MAGIC_CLONE
    }
}
impl<'a> Obs for &'a Elem {
    fn key(&self) -> usize {
        self.key as usize
    }
    fn addr(&self) -> usize {
        *self as *const Elem as usize
    }
    fn valid(&self) -> bool {
        self.magic == MAGIC
    }
}
impl Obs for usize {
    fn key(&self) -> usize {
        *self
    }
}
impl<'a> Obs for &'a usize {
    fn key(&self) -> usize {
        **self
    }
    fn addr(&self) -> usize {
        *self as *const usize as usize
    }
}
