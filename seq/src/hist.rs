//! Operation alphabet of the sequential explorer and its text form.
pub const ALL: usize = usize::MAX;

#[derive(Clone, Copy, Debug, PartialEq, Eq, Hash)]
pub enum SOp {
    Next,
    IdVal,
    Vals,
    IdsVals,
    /// next_chunk(n), consume k, drop
    Chunk(usize, usize),
    /// next_chunk(n), consumed through another Iterator method (mode: 0/1/9 = nth(0/1/9), 20 = count, 21 = last, 22 = skip(1) + collect)
    ChunkVia(usize, usize),
    /// buffered next, consumed through another Iterator method (same modes)
    BufVia(usize),
    /// next_chunk(n) kept in a slot (borrows the iterator shared)
    Hold(usize),
    HeldNext(usize),
    HeldDrop,
    BufNew(usize),
    BufNext(usize),
    BufDrop,
    ForEach(usize),
    EnumForEach(usize),
    Fold(usize),
    /// enumerate_for_each(n) whose closure calls skip_to_end during its k-th invocation (1-based)
    ForEachSkip(usize, usize),
    Skip,
    Len,
    HasMore,
    // multi-iterator suite (C19)
    NewIter,
    CloneCur,
    Sel(usize),
    // low-level safe API (C14)
    Get(usize),
    /// `AtomicIter::get(i)` for the position delivered last (already yielded): must not deliver
    GetPast,
    FetchOne,
    FetchN(usize),
    Progress(usize),
    EarlyExit,
    CtrStore(usize),
    CtrAdd(usize),
    CtrInc,
}

/// sizes are written symbolically so that one alphabet serves every length:
/// values >= SYM_LEN are `len + (v - SYM_LEN)`
pub const SYM_LEN: usize = 1 << 40;
pub fn resolve(n: usize, len: usize) -> usize {
    if n >= SYM_LEN && n < SYM_LEN + 1024 {
        len + (n - SYM_LEN)
    } else {
        n
    }
}

const M: usize = usize::MAX;
/// symbolic names of the extreme sizes of the C16 grid (ALL = usize::MAX is written `a` only in consume positions)
const BIG: [(&str, usize); 7] = [("Mm2", M - 2), ("Mm1", M - 1), ("Hm1", M / 2 - 1), ("Hh", M / 2), ("Hp1", M / 2 + 1), ("Hp2", M / 2 + 2), ("Mx", M)];

fn num(n: usize) -> String {
    if let Some((name, _)) = BIG.iter().find(|(_, v)| *v == n && n != ALL) {
        return name.to_string();
    }
    if n == ALL {
        "a".into()
    } else if n >= SYM_LEN && n < SYM_LEN + 1024 {
        format!("L{}", n - SYM_LEN)
    } else {
        n.to_string()
    }
}
fn size(n: usize) -> String {
    if n == M {
        "Mx".into()
    } else {
        num(n)
    }
}
fn parse_num(s: &str) -> Result<usize, String> {
    if let Some((_, v)) = BIG.iter().find(|(name, _)| *name == s) {
        return Ok(*v);
    }
    if s == "a" {
        Ok(ALL)
    } else if let Some(r) = s.strip_prefix('L') {
        r.parse::<usize>().map(|x| SYM_LEN + x).map_err(|_| format!("bad number '{s}'"))
    } else {
        s.parse::<usize>().map_err(|_| format!("bad number '{s}'"))
    }
}

impl SOp {
    pub fn show(&self) -> String {
        match *self {
            SOp::Next => "N".into(),
            SOp::IdVal => "I".into(),
            SOp::Vals => "V".into(),
            SOp::IdsVals => "W".into(),
            SOp::Chunk(n, k) => format!("C{}:{}", size(n), num(k)),
            SOp::ChunkVia(n, m) => format!("CV{}:{}", size(n), m),
            SOp::BufVia(m) => format!("BV{m}"),
            SOp::Hold(n) => format!("HC{}", size(n)),
            SOp::HeldNext(k) => format!("HN{}", num(k)),
            SOp::HeldDrop => "HD".into(),
            SOp::BufNew(n) => format!("BN{}", size(n)),
            SOp::BufNext(k) => format!("BX{}", num(k)),
            SOp::BufDrop => "BD".into(),
            SOp::ForEach(n) => format!("FE{}", size(n)),
            SOp::EnumForEach(n) => format!("EF{}", size(n)),
            SOp::Fold(n) => format!("FO{}", size(n)),
            SOp::ForEachSkip(n, k) => format!("FS{}:{}", size(n), k),
            SOp::Skip => "S".into(),
            SOp::Len => "L".into(),
            SOp::HasMore => "H".into(),
            SOp::NewIter => "NI".into(),
            SOp::CloneCur => "CL".into(),
            SOp::Sel(j) => format!("SEL{j}"),
            SOp::Get(i) => format!("GET{}", num(i)),
            SOp::GetPast => "GETP".into(),
            SOp::FetchOne => "F1".into(),
            SOp::FetchN(n) => format!("FN{}", size(n)),
            SOp::Progress(n) => format!("PR{}", num(n)),
            SOp::EarlyExit => "EE".into(),
            SOp::CtrStore(v) => format!("CS{}", num(v)),
            SOp::CtrAdd(n) => format!("CA{}", num(n)),
            SOp::CtrInc => "CI".into(),
        }
    }
    pub fn parse(s: &str) -> Result<SOp, String> {
        let p = |pre: &str| s.strip_prefix(pre);
        Ok(match s {
            "N" => SOp::Next,
            "I" => SOp::IdVal,
            "V" => SOp::Vals,
            "W" => SOp::IdsVals,
            "HD" => SOp::HeldDrop,
            "BD" => SOp::BufDrop,
            "S" => SOp::Skip,
            "L" => SOp::Len,
            "H" => SOp::HasMore,
            "NI" => SOp::NewIter,
            "CL" => SOp::CloneCur,
            "F1" => SOp::FetchOne,
            "GETP" => SOp::GetPast,
            "EE" => SOp::EarlyExit,
            "CI" => SOp::CtrInc,
            _ => {
                if let Some(r) = p("SEL") {
                    SOp::Sel(parse_num(r)?)
                } else if let Some(r) = p("GET") {
                    SOp::Get(parse_num(r)?)
                } else if let Some(r) = p("CV") {
                    let (n, m) = r.split_once(':').ok_or(format!("bad op '{s}'"))?;
                    SOp::ChunkVia(parse_num(n)?, parse_num(m)?)
                } else if let Some(r) = p("BV") {
                    SOp::BufVia(parse_num(r)?)
                } else if let Some(r) = p("HC") {
                    SOp::Hold(parse_num(r)?)
                } else if let Some(r) = p("HN") {
                    SOp::HeldNext(parse_num(r)?)
                } else if let Some(r) = p("BN") {
                    SOp::BufNew(parse_num(r)?)
                } else if let Some(r) = p("BX") {
                    SOp::BufNext(parse_num(r)?)
                } else if let Some(r) = p("FS") {
                    let (n, k) = r.split_once(':').ok_or(format!("bad op '{s}'"))?;
                    SOp::ForEachSkip(parse_num(n)?, parse_num(k)?)
                } else if let Some(r) = p("FE") {
                    SOp::ForEach(parse_num(r)?)
                } else if let Some(r) = p("EF") {
                    SOp::EnumForEach(parse_num(r)?)
                } else if let Some(r) = p("FO") {
                    SOp::Fold(parse_num(r)?)
                } else if let Some(r) = p("FN") {
                    SOp::FetchN(parse_num(r)?)
                } else if let Some(r) = p("PR") {
                    SOp::Progress(parse_num(r)?)
                } else if let Some(r) = p("CS") {
                    SOp::CtrStore(parse_num(r)?)
                } else if let Some(r) = p("CA") {
                    SOp::CtrAdd(parse_num(r)?)
                } else if let Some(r) = p("C") {
                    let (n, k) = r.split_once(':').ok_or(format!("bad op '{s}'"))?;
                    SOp::Chunk(parse_num(n)?, parse_num(k)?)
                } else {
                    return Err(format!("unknown op '{s}'"));
                }
            }
        })
    }
}

#[derive(Clone, Copy, Debug, PartialEq, Eq, Hash)]
pub enum Term {
    Drop,
    /// into_seq_iter, consume k (ALL = everything), drop the rest
    Seq(usize),
}
impl Term {
    pub fn show(&self) -> String {
        match self {
            Term::Drop => "drop".into(),
            Term::Seq(k) => format!("seq{}", num(*k)),
        }
    }
    pub fn parse(s: &str) -> Result<Term, String> {
        if s == "drop" {
            Ok(Term::Drop)
        } else if let Some(r) = s.strip_prefix("seq") {
            Ok(Term::Seq(parse_num(r)?))
        } else {
            Err(format!("bad terminal '{s}'"))
        }
    }
}

pub fn show_hist(h: &[SOp]) -> String {
    h.iter().map(|o| o.show()).collect::<Vec<_>>().join(",")
}
pub fn parse_hist(s: &str) -> Result<Vec<SOp>, String> {
    if s.is_empty() {
        return Ok(vec![]);
    }
    s.split(',').map(SOp::parse).collect()
}
pub fn alphabet(items: &[&str]) -> Vec<SOp> {
    items.iter().map(|s| SOp::parse(s).expect("alphabet symbol")).collect()
}
