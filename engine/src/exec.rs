//! Per-execution state, happens-before monitor, spin detection, call bookkeeping.
use std::cell::{Cell, RefCell};
use std::sync::atomic::Ordering;

pub const MAXT: usize = 4;
pub const NSUM: usize = 10;
pub type VC = [u32; MAXT];
pub type Summary = [u64; NSUM];
pub type H = u128;

#[inline]
pub fn mix(h: H, x: u64) -> H {
    let lo = h as u64;
    let hi = (h >> 64) as u64;
    let mut a = (lo.rotate_left(23) ^ x).wrapping_mul(0x9E37_79B9_7F4A_7C15);
    a ^= a >> 31;
    let mut b = (hi.rotate_left(41) ^ x.wrapping_mul(0xC2B2_AE3D_27D4_EB4F) ^ a)
        .wrapping_mul(0xD6E8_FEB8_6659_FD93);
    b ^= b >> 29;
    ((b as u128) << 64) | (a.wrapping_add(b.rotate_left(17)) as u128)
}

#[inline]
fn vc_join(a: &mut VC, b: &VC) {
    for i in 0..MAXT {
        if b[i] > a[i] {
            a[i] = b[i];
        }
    }
}
#[inline]
fn vc_leq(a: &VC, b: &VC) -> bool {
    (0..MAXT).all(|i| a[i] <= b[i])
}

#[derive(Clone, Copy, Debug, PartialEq, Eq, Hash)]
pub enum Kind {
    Load,
    Store,
    Rmw,
    CasFail,
}

#[derive(Clone, Debug)]
pub struct Step {
    pub tid: usize,
    pub kind: Kind,
    pub loc: u32,
    /// value read (Load / CasFail / Rmw: old value) or written (Store)
    pub val: u64,
}

#[derive(Clone, Copy, PartialEq, Eq, Debug)]
pub enum St {
    Runnable,
    Spin,
    Done,
}

#[derive(Clone, Copy, PartialEq, Eq, Debug)]
pub enum SpinMode {
    /// thread is disabled after two identical consecutive passes of a read-only cycle
    Conservative,
    /// thread is disabled after one pass; its history is reset to a canonical "blocked here" value
    Fast,
}

#[derive(Clone, Debug)]
pub struct ReadRec {
    pub loc: u32,
    pub val: u64,
    pub ver: u64,
    pub hist_before: H,
}

pub struct Th {
    pub st: St,
    pub vc: VC,
    pub acq_pending: VC,
    pub fence_rel: VC,
    pub hist: H,
    pub nops: u32,
    pub nwrites: u32,
    pub ncell: u32,
    pub readset: Vec<ReadRec>,
    pub wait_entry: Option<H>,
    pub waitset: Vec<(u32, u64)>,
    pub call_active: bool,
    pub call_ops: u32,
    pub call_first: u64,
    pub call_last: u64,
    pub call_sum: Summary,
    pub wrote: bool,
    pub ever_waited: bool,
}

impl Th {
    pub fn new(t: usize) -> Self {
        let mut vc = [0; MAXT];
        vc[t] = 1;
        Th {
            st: St::Runnable,
            vc,
            acq_pending: [0; MAXT],
            fence_rel: [0; MAXT],
            hist: mix(0x51a8_7000 + t as u128, t as u64),
            nops: 0,
            nwrites: 0,
            ncell: 0,
            readset: Vec::new(),
            wait_entry: None,
            waitset: Vec::new(),
            call_active: false,
            call_ops: 0,
            call_first: 0,
            call_last: 0,
            call_sum: [0; NSUM],
            wrote: false,
            ever_waited: false,
        }
    }
    #[inline]
    pub fn mid_call(&self) -> bool {
        self.call_active && self.call_ops > 0
    }
}

#[derive(Clone, Debug)]
pub struct Loc {
    pub val: u64,
    pub rel: VC,
    pub writer: (u32, u32),
    pub ver: u64,
    /// threads whose first would-succeed `compare_exchange_weak` on this location has already failed spuriously
    pub weak_failed: u8,
}

#[derive(Clone, Debug, Default)]
pub struct CellSt {
    pub used: bool,
    pub wvc: VC,
    pub w: (u32, u32),
    pub rvc: VC,
}

#[derive(Clone, Debug)]
pub struct Violation {
    pub prop: String,
    pub class: String,
    pub msg: String,
    pub step: usize,
}

pub struct Exec {
    pub ths: Vec<Th>,
    pub cur: usize,
    pub locs: Vec<Loc>,
    pub cells: Vec<CellSt>,
    pub trace: Vec<Step>,
    pub summary: Summary,
    pub violations: Vec<Violation>,
    pub spin_mode: SpinMode,
    /// when set, spin detection does not block (used to double check a HANG verdict)
    pub no_block: bool,
}

impl Exec {
    pub fn new(nthreads: usize, spin_mode: SpinMode) -> Self {
        assert!(nthreads <= MAXT);
        Exec {
            ths: (0..nthreads).map(Th::new).collect(),
            cur: 0,
            locs: Vec::new(),
            cells: Vec::new(),
            trace: Vec::new(),
            summary: [0; NSUM],
            violations: Vec::new(),
            spin_mode,
            no_block: false,
        }
    }
    #[inline]
    pub fn wait_satisfied(&self, t: usize) -> bool {
        self.ths[t].waitset.iter().any(|w| self.locs[w.0 as usize].ver != w.1)
    }
}

thread_local! {
    /// per coroutine: a panic of the subject / a probe is unwinding this coroutine's stack (set by the panic hook,
    /// cleared by `guarded`). Destructors that run during such an unwinding may contain several atomic operations:
    /// they remain scheduling points. (Only the scheduler's own cancellation unwinds without yielding.)
    pub(crate) static UNWINDING: RefCell<[bool; MAXT]> = const { RefCell::new([false; MAXT]) };
    pub(crate) static EXEC: RefCell<Option<Exec>> = const { RefCell::new(None) };
    pub(crate) static IN_CO: Cell<bool> = const { Cell::new(false) };
    pub(crate) static CANCEL: Cell<bool> = const { Cell::new(false) };
}

/// Payload used to unwind an abandoned coroutine. Harness `catch_unwind`s must re-raise it (see `guarded`).
pub struct CancelToken;

#[inline]
pub fn active() -> bool {
    IN_CO.with(|c| c.get())
}

/// Scheduling point: announce an operation and yield to the scheduler.
#[inline]
#[allow(deprecated)]
pub(crate) fn point() {
    // (no yield while the scheduler cancels an abandoned execution; a panic of the subject / a probe that unwinds
    // a coroutine does NOT suppress scheduling points - neither in that coroutine's destructors nor in the others)
    if active() {
        if !CANCEL.with(|c| c.get()) {
            // allocation accounting (C15) only covers subject code: not the scheduler that runs while we are suspended
            let t = crate::alloc::track(false);
            generator::yield_with(());
            crate::alloc::track(t);
        }
        if CANCEL.with(|c| c.get()) {
            // the execution is abandoned. A coroutine that is in the middle of unwinding a subject panic (we are
            // inside a destructor) cannot take a second panic: it finishes that unwinding without further
            // scheduling points and `guarded` raises the cancellation once the first panic has been caught
            let me = cur_tid().min(MAXT - 1);
            if !UNWINDING.with(|u| u.borrow()[me]) {
                // (from now on this coroutine is unwinding: destructors that touch atomics must not raise again)
                UNWINDING.with(|u| u.borrow_mut()[me] = true);
                std::panic::resume_unwind(Box::new(CancelToken));
            }
        }
    }
}

#[inline]
fn with_exec<R>(f: impl FnOnce(&mut Exec) -> R) -> Option<R> {
    EXEC.with(|e| e.borrow_mut().as_mut().map(f))
}

pub(crate) fn new_loc(init: u64) -> u32 {
    let _nt = crate::alloc::NoTrack::new();
    with_exec(|e| {
        let id = e.locs.len() as u32;
        e.locs.push(Loc { val: init, rel: [0; MAXT], writer: (u32::MAX, 0), ver: 0, weak_failed: 0 });
        id
    })
    .unwrap_or(u32::MAX)
}

/// Environment choice for `compare_exchange_weak`: the first attempt of every thread at every location that would
/// succeed fails spuriously (an outcome the memory model allows for any attempt). Code with a retry loop pays one
/// extra iteration; an unretried weak CAS shows its failure path in every execution.
pub(crate) fn weak_cas_fails_spuriously(id: u32) -> bool {
    if !active() || id == u32::MAX {
        return false;
    }
    with_exec(|e| {
        let bit = 1u8 << e.cur.min(MAXT - 1);
        let l = &mut e.locs[id as usize];
        if l.weak_failed & bit == 0 {
            l.weak_failed |= bit;
            true
        } else {
            false
        }
    })
    .unwrap_or(false)
}

#[inline]
fn acq(o: Ordering) -> bool {
    matches!(o, Ordering::Acquire | Ordering::AcqRel | Ordering::SeqCst)
}
#[inline]
fn rel(o: Ordering) -> bool {
    matches!(o, Ordering::Release | Ordering::AcqRel | Ordering::SeqCst)
}

const BLOCKED: u64 = 0xb10c_b10c_b10c;

#[inline]
fn touch_call(th: &mut Th, summary: &Summary, step: u64) {
    if th.call_active {
        if th.call_ops == 0 {
            th.call_first = step;
            th.call_sum = *summary;
            for x in summary {
                th.hist = mix(th.hist, *x ^ 0x77);
            }
        }
        th.call_ops += 1;
        th.call_last = step;
    }
}

/// Bookkeeping of a load (or failed compare-exchange) that returned `val`.
pub(crate) fn after_load(loc: u32, val: u64, o: Ordering, kind: Kind) {
    if !active() || loc == u32::MAX {
        return;
    }
    let _nt = crate::alloc::NoTrack::new();
    with_exec(|e| {
        let t = e.cur;
        let step = e.trace.len() as u64;
        let Exec { ths, locs, summary, spin_mode, no_block, trace, .. } = e;
        if loc as usize >= locs.len() {
            return;
        }
        let (lver, lrel, lwriter) = {
            let l = &locs[loc as usize];
            (l.ver, l.rel, l.writer)
        };
        let th = &mut ths[t];
        th.nops += 1;
        if acq(o) {
            vc_join(&mut th.vc, &lrel);
        } else {
            vc_join(&mut th.acq_pending, &lrel);
        }
        touch_call(th, summary, step);
        let wid = ((lwriter.0 as u64) << 32) | lwriter.1 as u64;
        let found = th.readset.iter().rposition(|r| r.loc == loc && r.ver == lver);
        match *spin_mode {
            SpinMode::Fast => {
                // detection as in the conservative mode (two identical, still current passes of a read-only
                // cycle, so that a straight-line re-read is never mistaken for a wait); on detection the
                // history is reset to a canonical "blocked in this wait" value so that wait iterations and
                // wake-ups that change nothing create no new states
                let mut spin = false;
                if let Some(j) = found {
                    let m = th.readset.len();
                    let k = m - j;
                    if j >= k && th.readset[j..].iter().all(|r| locs[r.loc as usize].ver == r.ver) {
                        spin = (0..k).all(|d| {
                            let a = &th.readset[j - k + d];
                            let b = &th.readset[j + d];
                            a.loc == b.loc && a.val == b.val && a.ver == b.ver
                        });
                    }
                }
                if spin && !*no_block {
                    let j = found.unwrap();
                    let k = th.readset.len() - j;
                    th.waitset = th.readset[j..].iter().map(|r| (r.loc, r.ver)).collect();
                    let entry = match th.wait_entry {
                        Some(h) => h,
                        None => {
                            let h = th.readset[j - k].hist_before;
                            th.wait_entry = Some(h);
                            h
                        }
                    };
                    th.hist = mix(entry, BLOCKED);
                    th.readset.clear();
                    th.readset.push(ReadRec { loc, val, ver: lver, hist_before: entry });
                    th.st = St::Spin;
                    th.ever_waited = true;
                } else {
                    let hb = th.hist;
                    th.hist = mix(mix(th.hist, ((loc as u64) << 40) ^ val.wrapping_mul(31) ^ 0x10ad), wid);
                    th.readset.push(ReadRec { loc, val, ver: lver, hist_before: hb });
                    if th.readset.len() > 4096 {
                        th.readset.drain(..2048);
                    }
                }
            }
            SpinMode::Conservative => {
                let mut spin = false;
                if let Some(j) = found {
                    let m = th.readset.len();
                    let k = m - j;
                    if j >= k && th.readset[j..].iter().all(|r| locs[r.loc as usize].ver == r.ver) {
                        spin = (0..k).all(|d| {
                            let a = &th.readset[j - k + d];
                            let b = &th.readset[j + d];
                            a.loc == b.loc && a.val == b.val && a.ver == b.ver
                        });
                    }
                }
                let hb = th.hist;
                th.hist = mix(mix(th.hist, ((loc as u64) << 40) ^ val.wrapping_mul(31) ^ 0x10ad), wid);
                if spin && !*no_block {
                    let j = found.unwrap();
                    th.waitset = th.readset[j..].iter().map(|r| (r.loc, r.ver)).collect();
                    th.st = St::Spin;
                    th.ever_waited = true;
                }
                th.readset.push(ReadRec { loc, val, ver: lver, hist_before: hb });
                // keep the read list bounded: only the last passes matter
                if th.readset.len() > 4096 {
                    th.readset.drain(..2048);
                }
            }
        }
        trace.push(Step { tid: t, kind, loc, val });
    });
}

/// Bookkeeping of a store or successful read-modify-write.
pub(crate) fn after_write(loc: u32, old: u64, new: u64, o: Ordering, rmw: bool) {
    if !active() || loc == u32::MAX {
        return;
    }
    let _nt = crate::alloc::NoTrack::new();
    with_exec(|e| {
        let t = e.cur;
        let step = e.trace.len() as u64;
        let Exec { ths, locs, summary, trace, .. } = e;
        if loc as usize >= locs.len() {
            return;
        }
        let l = &mut locs[loc as usize];
        l.ver += 1;
        let th = &mut ths[t];
        th.nops += 1;
        th.nwrites += 1;
        th.wrote = true;
        th.readset.clear();
        th.wait_entry = None;
        touch_call(th, summary, step);
        let wid = ((l.writer.0 as u64) << 32) | l.writer.1 as u64;
        if rmw {
            if acq(o) {
                vc_join(&mut th.vc, &l.rel);
            } else {
                vc_join(&mut th.acq_pending, &l.rel);
            }
            th.hist = mix(mix(th.hist, ((loc as u64) << 40) ^ old.wrapping_mul(31) ^ 0x7a77), wid);
        } else {
            th.hist = mix(th.hist, ((loc as u64) << 40) ^ 0x5707e);
        }
        if rel(o) {
            if rmw {
                let v = th.vc;
                vc_join(&mut l.rel, &v);
            } else {
                l.rel = th.vc;
            }
        } else if rmw {
            let v = th.fence_rel;
            vc_join(&mut l.rel, &v);
        } else {
            l.rel = th.fence_rel;
        }
        th.vc[t] += 1;
        l.val = new;
        l.writer = (t as u32, th.nwrites);
        trace.push(Step { tid: t, kind: if rmw { Kind::Rmw } else { Kind::Store }, loc, val: if rmw { old } else { new } });
    });
}

pub(crate) fn on_fence(o: Ordering) {
    if !active() {
        return;
    }
    with_exec(|e| {
        let t = e.cur;
        let th = &mut e.ths[t];
        if acq(o) {
            let p = th.acq_pending;
            vc_join(&mut th.vc, &p);
        }
        if rel(o) {
            th.fence_rel = th.vc;
            th.vc[t] += 1;
        }
        th.hist = mix(th.hist, 0xfe9ce ^ (o as u64));
    });
}

// ------------------------------------------------------------------------------------------------
// harness API

/// Report a harness-visible *non-atomic* access to shared cell `cell` by the current thread.
/// Not a scheduling point; checked against the happens-before relation derived from the atomics.
pub fn cell_access(cell: u32, write: bool, what: &str) {
    if !active() {
        return;
    }
    let _nt = crate::alloc::NoTrack::new();
    with_exec(|e| {
        let t = e.cur;
        let vc = e.ths[t].vc;
        e.ths[t].ncell += 1;
        let nops = e.ths[t].ncell;
        if e.cells.len() <= cell as usize {
            e.cells.resize(cell as usize + 1, CellSt::default());
        }
        let c = &mut e.cells[cell as usize];
        let mut bad = c.used && !vc_leq(&c.wvc, &vc);
        if write {
            bad |= c.used && !vc_leq(&c.rvc, &vc);
        }
        let prev = c.w;
        if write {
            c.wvc = vc;
            c.w = (t as u32, nops);
        } else {
            vc_join(&mut c.rvc, &vc);
        }
        c.used = true;
        let w = c.w;
        let th = &mut e.ths[t];
        th.hist = mix(th.hist, ((cell as u64) << 32 | 0x5555) ^ (((w.0 as u64) << 32 | w.1 as u64).rotate_left(7)) ^ (((prev.0 as u64) << 32 | prev.1 as u64).rotate_left(29)));
        if bad {
            let step = e.trace.len();
            let msg = format!(
                "{} access to {what} (cell {cell}) by thread {t} is not ordered by happens-before after the previous access by thread {} (op #{})",
                if write { "write" } else { "read" },
                prev.0,
                prev.1
            );
            push_violation(e, "C07", "data-race", msg, step);
        }
    });
}

fn push_violation(e: &mut Exec, prop: &str, class: &str, msg: String, step: usize) {
    if !e.violations.iter().any(|v| v.prop == prop && v.class == class) {
        e.violations.push(Violation { prop: prop.to_string(), class: class.to_string(), msg, step });
    }
}

/// Record a property violation observed in the current execution (deduplicated per (prop, class)).
pub fn violation(prop: &str, class: &str, msg: String) {
    let _nt = crate::alloc::NoTrack::new();
    with_exec(|e| {
        let step = e.trace.len();
        push_violation(e, prop, class, msg, step);
    });
}

/// Mix a harness observation into the current thread's history (keeps the state key exact).
pub fn note(x: u64) {
    if !active() {
        return;
    }
    with_exec(|e| {
        let t = e.cur;
        e.ths[t].hist = mix(e.ths[t].hist, x ^ 0x9e37_0001);
    });
}

/// A scheduling point without an atomic operation (harness probes use it to let other threads run in the
/// middle of a call of the wrapped iterator).
pub fn yield_point() {
    if !active() {
        return;
    }
    point();
    with_exec(|e| {
        let t = e.cur;
        e.ths[t].nops += 1;
        e.ths[t].hist = mix(e.ths[t].hist, 0x71e1d);
        e.ths[t].readset.clear();
    });
}

pub fn cur_tid() -> usize {
    with_exec(|e| e.cur).unwrap_or(0)
}

pub fn summary() -> Summary {
    with_exec(|e| e.summary).unwrap_or([0; NSUM])
}
pub fn set_summary(s: Summary) {
    with_exec(|e| e.summary = s);
}

#[derive(Clone, Copy, Debug, Default)]
pub struct CallInfo {
    pub first: u64,
    pub last: u64,
    pub nops: u32,
    /// summary of completed calls as it was when this call performed its first atomic operation
    pub snap: Summary,
}

/// Marks the start of a public call by the current thread.
pub fn begin_call() {
    if !active() {
        return;
    }
    with_exec(|e| {
        let t = e.cur;
        let th = &mut e.ths[t];
        th.call_active = true;
        th.call_ops = 0;
        th.readset.clear();
        th.wait_entry = None;
    });
}

/// Marks the return of the public call started by `begin_call`.
pub fn end_call() -> CallInfo {
    if !active() {
        return CallInfo { snap: summary(), ..Default::default() };
    }
    with_exec(|e| {
        let t = e.cur;
        let step = e.trace.len() as u64;
        let summary = e.summary;
        let th = &mut e.ths[t];
        if th.call_ops == 0 {
            // a call without atomic operations: it takes effect "now"
            th.call_first = step;
            th.call_last = step;
            th.call_sum = summary;
            for x in summary {
                th.hist = mix(th.hist, x ^ 0x77);
            }
        }
        th.call_active = false;
        let ci = CallInfo { first: th.call_first, last: th.call_last, nops: th.call_ops, snap: th.call_sum };
        th.call_ops = 0;
        ci
    })
    .unwrap_or_default()
}

thread_local! {
    static PANIC_DEPTH: RefCell<[u32; MAXT]> = const { RefCell::new([0; MAXT]) };
    static LAST_PANIC: RefCell<String> = const { RefCell::new(String::new()) };
}

static ABORT_CONTEXT: std::sync::Mutex<String> = std::sync::Mutex::new(String::new());

/// Text printed (as `E1-ABORT-MARK <text>`) if the process is about to abort because of a panic that cannot
/// unwind (a panic inside a destructor during unwinding, a std precondition check): lets the driver attribute
/// the abort to the configuration being explored.
pub fn set_abort_context(s: String) {
    if let Ok(mut g) = ABORT_CONTEXT.lock() {
        *g = s;
    }
}

pub(crate) fn install_quiet_hook() {
    use std::sync::Once;
    static ONCE: Once = Once::new();
    ONCE.call_once(|| {
        std::panic::set_hook(Box::new(|info| {
            let _nt = crate::alloc::NoTrack::new();
            let loc = info.location().map(|l| format!("{}:{}", l.file(), l.line())).unwrap_or_default();
            let msg = if let Some(s) = info.payload().downcast_ref::<&str>() {
                s.to_string()
            } else if let Some(s) = info.payload().downcast_ref::<String>() {
                s.clone()
            } else {
                "<non-string panic payload>".to_string()
            };
            // a second panic before the first one was caught (e.g. a panic in a destructor during unwinding), or a
            // std precondition check: the process is about to abort
            let me = if active() { cur_tid().min(MAXT - 1) } else { MAXT - 1 };
            let depth = PANIC_DEPTH.with(|d| {
                let mut d = d.borrow_mut();
                d[me] += 1;
                d[me]
            });
            if active() {
                UNWINDING.with(|u| u.borrow_mut()[me] = true);
            }
            if depth >= 2 || msg.contains("unsafe precondition") {
                let ctx = ABORT_CONTEXT.lock().map(|g| g.clone()).unwrap_or_default();
                eprintln!("\nE1-ABORT-MARK {ctx}\tpanic={msg} @ {loc}");
            }
            LAST_PANIC.with(|p| *p.borrow_mut() = format!("{msg} @ {loc}"));
            if std::env::var_os("ORX_VERIF_SHOW_PANICS").is_some() {
                eprintln!("[panic] {msg} @ {loc}");
            }
        }));
    });
}

/// Run `f`, catching panics of the subject / probes. The private cancellation payload is re-raised.
pub fn guarded<R>(f: impl FnOnce() -> R) -> Result<R, String> {
    match std::panic::catch_unwind(std::panic::AssertUnwindSafe(f)) {
        Ok(r) => Ok(r),
        Err(p) => {
            if p.is::<CancelToken>() {
                std::panic::resume_unwind(p);
            }
            let me = if active() { cur_tid().min(MAXT - 1) } else { MAXT - 1 };
            PANIC_DEPTH.with(|d| d.borrow_mut()[me] = 0);
            UNWINDING.with(|u| u.borrow_mut()[me] = false);
            if active() && CANCEL.with(|c| c.get()) {
                std::panic::resume_unwind(Box::new(CancelToken));
            }
            let m = LAST_PANIC.with(|p| p.borrow().clone());
            Err(m)
        }
    }
}
