#!/bin/bash
# usage: mkmutant.sh <name> <python-edit-script-on-stdin>   (works in the scratch worktree /tmp/wt/mine)
set -e
name=$1
cd /tmp/wt/mine && git checkout -q -- . 
python3 - 
git diff -- src > /verif/${OUTDIR:-mutants}/$name.diff
git checkout -q -- .
test -s /verif/${OUTDIR:-mutants}/$name.diff && echo "wrote /verif/${OUTDIR:-mutants}/$name.diff ($(wc -l < /verif/${OUTDIR:-mutants}/$name.diff) lines)" || (echo "EMPTY PATCH $name"; exit 1)
