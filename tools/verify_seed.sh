#!/bin/bash
# usage: verify_seed.sh <agent-out-dir e.g. /tmp/wt/C01-out/a> <seed id e.g. C01a> <property>
# In the scratch worktree /tmp/wt/mine: (1) patch applies, (2) crate builds and the pinned baseline passes with it,
# (3) the demo fails with the patch and passes without. On success copies to /verif/seeded/<id>/ with meta.json.
src=$1; id=$2; prop=$3
W=${VERIFY_WT:-/tmp/wt/mine}
export CARGO_NET_OFFLINE=true CARGO_TARGET_DIR=$W/target
cd $W || exit 2
git checkout -q -- . ; rm -f tests/demo_seed_*.rs
git apply --check $src/patch.diff || { echo "$id: PATCH DOES NOT APPLY"; exit 1; }
demo=tests/demo_seed_$id.rs
run_demo() {  # runs demo test; echo PASS/FAIL
  if grep -qi "needs Miri\|must be run under miri\|run under Miri" $src/README.md; then
    timeout 900 cargo +nightly miri test --offline --test demo_seed_$id > $W/demo.log 2>&1 && echo PASS || echo FAIL
  else
    timeout 600 cargo test --offline --test demo_seed_$id > $W/demo.log 2>&1 && echo PASS || echo FAIL
  fi
}
cp $src/demo.rs $demo
clean=$(run_demo)
git apply $src/patch.diff
mut=$(run_demo)
tail -5 $W/demo.log > $W/demo_mut_tail.log
rm -f $demo
# baseline with the patch (guard off)
cargo nextest run --workspace --no-fail-fast --tool-config-file pb:/w/lib/nextest.toml --profile pb --test-threads 8 --offline > $W/base.log 2>&1
base=$(python3 - <<PY
import json,xml.etree.ElementTree as ET
b=json.load(open('/root/.vp/BASELINE.json')); want=set(b['stable_pass'])
try:
    t=ET.parse('$W/target/nextest/pb/junit.xml').getroot()
except Exception as e:
    print("NOJUNIT"); raise SystemExit
ok=set()
for ts in t.iter('testsuite'):
    for tc in ts.iter('testcase'):
        if not any(c.tag in('failure','error') for c in tc): ok.add(tc.get('classname','')+'::'+tc.get('name',''))
tot=sum(1 for ts in t.iter('testsuite') for tc in ts.iter('testcase'))
miss=[w for w in want if w not in ok]
print(f"baseline_missing={len(miss)} passed={len(ok)}/{tot} {' '.join(miss[:3])}")
PY
)
if ! echo "$base" | grep -q "baseline_missing=0"; then
  echo "  first baseline run: $base ; re-running once (timing-sensitive tests under load)"
  cargo nextest run --workspace --no-fail-fast --tool-config-file pb:/w/lib/nextest.toml --profile pb --test-threads 4 --offline > $W/base.log 2>&1
  base=$(python3 - <<PY
import json,xml.etree.ElementTree as ET
b=json.load(open('/root/.vp/BASELINE.json')); want=set(b['stable_pass'])
t=ET.parse('$W/target/nextest/pb/junit.xml').getroot()
ok=set()
for ts in t.iter('testsuite'):
    for tc in ts.iter('testcase'):
        if not any(c.tag in('failure','error') for c in tc): ok.add(tc.get('classname','')+'::'+tc.get('name',''))
tot=sum(1 for ts in t.iter('testsuite') for tc in ts.iter('testcase'))
miss=[w for w in want if w not in ok]
print(f"baseline_missing={len(miss)} passed={len(ok)}/{tot} {' '.join(miss[:3])}")
PY
)
fi
git diff --stat -- src | tail -1 > $W/stat.txt
git checkout -q -- .
echo "$id ($prop): demo_clean=$clean demo_mutant=$mut $base"
if [ "$clean" = PASS ] && [ "$mut" = FAIL ] && echo "$base" | grep -q "baseline_missing=0"; then
  d=/verif/seeded/$id; mkdir -p $d
  cp $src/patch.diff $d/patch.diff; cp $src/demo.rs $d/demo.rs; cp $src/README.md $d/README.md
  python3 - <<PY
import json
json.dump({"id":"$id","breaks_property":"$prop","source":"independent sub-agent given only the property text and a scratch worktree",
 "needs_to_manifest": open("$src/README.md").read()[:1200],
 "confirmed_by_me": {"patch_applies": True, "demo_on_unmodified_tree": "$clean", "demo_on_mutated_tree": "$mut", "existing_suite_with_patch": "$base",
   "how": "tools/verify_seed.sh in the scratch worktree /tmp/wt/mine (cargo test --offline --test demo; cargo nextest run with the pinned baseline list)"},
 "detected_by": None}, open("$d/meta.json","w"), indent=1)
PY
  echo "  -> kept as /verif/seeded/$id"
else
  echo "  -> NOT kept"; tail -3 $W/demo_mut_tail.log
fi
