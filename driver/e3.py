"""E3: bounded-exhaustive operation histories against the reference cursor (production build of /repo)."""
import os, re, json, time, subprocess
from common import *

ASSUMPTIONS = [
    "single-threaded operation histories up to the stated depth over the stated alphabet, source kinds and lengths; nothing is claimed beyond these bounds",
    "the reference model is a plain cursor over the source (seq/src/exec.rs: Model); implementation-only failures are not modelled: any panic is a mismatch",
    "only public results, destructor runs and the allocator are observed",
    "wrapped iterators are harness probes with honest size hints",
]
RULE = ("every operation sequence up to depth D over the suite's alphabet (seq/src/suites.rs), followed by every terminal (drop / into_seq_iter consumed fully, partly, not at all), "
        "for every source kind and every length; each history is executed on the real iterator in lock-step with the reference cursor, with a drop ledger and an allocation ledger. "
        "A history that fails strictly inside is not extended (its extensions fail identically). states = distinct reference-model states reached, "
        "transitions = operation applications, traces_validated_against_impl = histories replayed on the implementation (all of them). "
        "distinct_nontrivial = histories that reached a non-initial model state (at least one operation).")

MAX_ABORTS_PER_UNIT = 4
MAX_EVENTS_PER_RUN = 24  # aborts + hangs after which the run stops early (violations are reported anyway)

def seq_info(binary, suite, tier):
    out = subprocess.run([binary, "alphabet", "--suite", suite, "--tier", tier], stdout=subprocess.PIPE, text=True, check=True).stdout.splitlines()
    alphabet = out[0].split()
    terms = out[1].split()
    units = {}
    for l in out[2:]:
        u, kind, ln, first = l.split()
        units[int(u)] = (kind, int(ln), first)
    return alphabet, terms, units

def run_profile(binary, suite, tier, seed, nshards, tag, cap):
    """returns (unit rows, aborts) ; aborts = list of dicts(unit, path, term, sig)"""
    rundir = os.path.join(TARGET, "run")
    os.makedirs(rundir, exist_ok=True)
    shards = {}
    for i in range(nshards):
        out = os.path.join(rundir, f"{tag}.{i}.jsonl")
        st = os.path.join(rundir, f"{tag}.{i}.state")
        for f in (out, st):
            if os.path.exists(f):
                os.remove(f)
        open(st, "w").close()
        shards[i] = {"out": out, "state": st, "aborts": 0, "proc": None, "done": False}
    aborts = []
    t0 = time.time()
    def launch(i):
        s = shards[i]
        s["proc"] = subprocess.Popen([binary, "run", "--suite", suite, "--tier", tier, "--seed", str(seed), "--shard", f"{i}/{nshards}", "--out", s["out"], "--state", s["state"]],
                                     stdout=subprocess.DEVNULL, stderr=subprocess.PIPE, text=True, env=dict(os.environ, SEQ_HANG_SECS="6"))
    pending = list(range(nshards))
    running = set()
    stopped_early = False
    while pending or running:
        if len(aborts) >= MAX_EVENTS_PER_RUN and not stopped_early:
            # enough evidence of a broken tree: do not spend minutes on restarts
            stopped_early = True
            pending.clear()
            for i in list(running):
                shards[i]["proc"].kill()
                shards[i]["proc"].wait()
                running.discard(i)
            break
        while pending and len(running) < NCPU:
            i = pending.pop(0)
            launch(i)
            running.add(i)
        progressed = False
        for i in list(running):
            s = shards[i]
            rc = s["proc"].poll()
            if rc is None:
                continue
            progressed = True
            err = s["proc"].stderr.read()
            running.discard(i)
            if rc == 0:
                s["done"] = True
                continue
            m = re.search(r"(?:ABORT|HANG)-MARK sig=(\d+) unit=(\d+) index=(\d+) term=(\d+) step=(\d+) path=([\d,]*)", err)
            if rc not in (70, 71) or not m:
                raise MachineryError(f"E3 worker {tag} shard {i} died (exit {rc}): {err[-1500:]}")
            sig, unit, index, term = int(m.group(1)), int(m.group(2)), int(m.group(3)), int(m.group(4))
            step = int(m.group(5))
            path = [int(x) for x in m.group(6).split(",") if x]
            aborts.append({"unit": unit, "index": index, "term": term, "path": path, "sig": sig, "stderr": err[-400:], "hang": rc == 71})
            s["aborts"] = s["aborts"] + 1 if s.get("abort_unit") == unit else 1
            s["abort_unit"] = unit
            # finished units are in the out file; restart the shard skipping them and the aborting run
            done_units = set()
            if os.path.exists(s["out"]):
                for line in open(s["out"]):
                    try:
                        done_units.add(json.loads(line)["unit"])
                    except Exception:
                        pass
            with open(s["state"], "a") as f:
                if step < len(path):
                    # aborted inside the history: every extension of that prefix aborts identically
                    f.write(f"skipsub {unit} {','.join(str(x) for x in path[:step+1])}\n")
                else:
                    f.write(f"skip {unit} {index}\n")
            lines = [l for l in open(s["state"]).read().splitlines() if l.startswith("skip")]
            with open(s["state"], "w") as f:
                f.write("\n".join(lines + [f"done {u}" for u in sorted(done_units)]) + "\n")
            if s["aborts"] > MAX_ABORTS_PER_UNIT:
                # give up on the unit that keeps aborting: mark it done (its violations are already recorded)
                with open(s["state"], "a") as f:
                    f.write(f"done {unit}\n")
                s["aborts"] = 0
                s.setdefault("abandoned", []).append(unit)
            launch(i)
            running.add(i)
        if not progressed:
            if time.time() - t0 > cap:
                for i in running:
                    shards[i]["proc"].kill()
                raise MachineryError(f"E3 run {tag} exceeded its wall-clock cap of {cap}s")
            time.sleep(0.02)
    rows = {}
    abandoned = ["stopped early after %d aborts/hangs" % len(aborts)] if stopped_early else []
    for i, s in shards.items():
        abandoned += s.get("abandoned", [])
        if os.path.exists(s["out"]):
            for line in open(s["out"]):
                try:
                    r = json.loads(line)
                except Exception:
                    continue
                rows[r["unit"]] = r  # a re-run unit overrides
            os.remove(s["out"])
        os.remove(s["state"])
    return rows, aborts, abandoned

def locate_diff(bin_a, bin_b, suite, tier, unit):
    """first run of the unit whose transcript hashes differ between the two builds"""
    def dump(b):
        p = subprocess.run([b, "dump", "--suite", suite, "--tier", tier, "--unit", str(unit)], stdout=subprocess.PIPE, stderr=subprocess.PIPE, text=True)
        return p.stdout.splitlines(), p.returncode
    a, ra = dump(bin_a)
    b, rb = dump(bin_b)
    for x, y in zip(a, b):
        if x != y:
            return x, y
    if len(a) != len(b):
        longer = a if len(a) > len(b) else b
        return (longer[min(len(a), len(b))], "<missing: other build stopped / aborted earlier>")
    return None

VALUE_TAGS = {"C02", "C03", "C04", "C05", "C06", "C10", "C11", "C12", "C16", "*"}

def part(prop, tier, seed, suite=None, profiles=("prel",), diff=False, all_tags=False, extra_classes=()):
    suite = suite or prop
    bins = {p: build_seq(p) for p in profiles}
    nsh = 64
    cap = 1800 if tier == "quick" else 6 * 3600
    viols = []
    total = {"histories": 0, "runs": 0, "ops": 0, "model_states": 0, "panics": 0, "units": 0, "nontrivial": 0}
    samples, per_profile, hashes = [], {}, {}
    other_tags = set()
    abandoned_all = []
    for prof, binary in bins.items():
        alphabet, terms, units = seq_info(binary, suite, tier)
        rows, aborts, abandoned = run_profile(binary, suite, tier, seed, nsh, f"{prop}-{suite}-e3-{prof}", cap)
        abandoned_all += [(prof, u) for u in abandoned]
        pp = {"units": len(rows), "histories": 0, "runs": 0, "ops": 0, "aborts": len(aborts)}
        hashes[prof] = {u: r["hash"] for u, r in rows.items()}
        for u, r in sorted(rows.items()):
            for k in ("histories", "runs", "ops"):
                pp[k] += r[k]
                total[k] += r[k]
            total["model_states"] += r["model_states"]
            if r["first"]:
                total["nontrivial"] += r["histories"]
            total["panics"] += r["panics"]
            total["units"] += 1
            if r["sample"] and len(samples) < 5 and (u % 97 == 3 or not samples):
                samples.append({"profile": prof, "kind": r["kind"], "len": r["len"], "history|terminal": r["sample"]})
            for v in r["violations"]:
                tags = v["tags"].split("+")
                # extra_classes: violations about WHICH elements were delivered also break properties that are stated
                # over "the delivered elements" (C10: delivered + remainder = source)
                mine = prop in tags or "*" in tags or (all_tags and any(t in VALUE_TAGS for t in tags)) or v["class"] in extra_classes
                if not mine:
                    other_tags.update(t for t in tags)
                    continue
                viols.append({"prop": prop, "engine": "E3", "class": v["class"], "kind": v["kind"], "len": v["len"], "history": v["history"], "term": v["term"],
                              "msg": f"[{prof}] kind={v['kind']} len={v['len']} history={v['history']} then {v['term']}: {v['msg']}", "count": v["count"], "profile": prof,
                              "replay_cmd": f"{binary} replay --suite {suite} --kind {v['kind']} --len {v['len']} --history '{v['history']}' --term {v['term']}"})
        for a in aborts:
            kind, ln, first = units.get(a["unit"], ("?", 0, "-"))
            hist = ",".join(alphabet[i] for i in a["path"])
            term = terms[a["term"]] if a["term"] < len(terms) else "drop"
            what = "does not return (6 s of CPU time without progress: a call spins forever)" if a.get("hang") else f"process aborted (signal {a['sig']}): {a['stderr'].strip().splitlines()[0] if a['stderr'].strip() else ''}"
            viols.append({"prop": prop, "engine": "E3", "class": "no-return" if a.get("hang") else "abort", "kind": kind, "len": ln, "history": hist, "term": term, "profile": prof, "count": 1,
                          "msg": f"[{prof}] kind={kind} len={ln} history={hist} then {term}: {what}",
                          "replay_cmd": f"{binary} replay --suite {suite} --kind {kind} --len {ln} --history '{hist}' --term {term}"})
        per_profile[prof] = pp
    ndiff = 0
    if diff and len(bins) == 2:
        pa, pb = list(bins)
        for u in sorted(set(hashes[pa]) | set(hashes[pb])):
            if hashes[pa].get(u) != hashes[pb].get(u):
                ndiff += 1
                if ndiff > 12:
                    continue
                d = locate_diff(bins[pa], bins[pb], suite, tier, u)
                kind, ln, first = units.get(u, ("?", 0, "-"))
                if d is None:
                    continue
                ha, hb = d
                histterm = ha.split(" ", 1)[1] if " " in ha else ha
                hist, _, term = histterm.partition("|")
                viols.append({"prop": prop, "engine": "E3", "class": "profile-diff", "kind": kind, "len": ln, "history": hist, "term": term or "drop", "count": 1, "profile": f"{pa}/{pb}",
                              "msg": f"kind={kind} len={ln} history={hist} then {term}: transcripts differ between the {pa} build ({ha.split(' ')[0]}) and the {pb} build ({hb.split(' ')[0]})",
                              "replay_cmd": f"{bins[pa]} replay --suite {suite} --kind {kind} --len {ln} --history '{hist}' --term {term or 'drop'}; {bins[pb]} replay --suite {suite} --kind {kind} --len {ln} --history '{hist}' --term {term or 'drop'}"})
    cov = {
        "engine_E3": {
            "suite": suite,
            "alphabet": alphabet,
            "terminals": terms,
            "depth": 0,
            "units": total["units"],
            "per_profile": per_profile,
            "histories": total["histories"],
            "history_terminal_runs": total["runs"],
            "operation_applications": total["ops"],
            "reference_model_states": total["model_states"],
            "unexpected_panics": total["panics"],
            "units_with_differing_transcripts": ndiff,
            "abandoned_units": abandoned_all,
            "other_property_tags_seen": sorted(other_tags),
        },
        "states": max(1, total["model_states"]),
        "transitions": max(1, total["ops"]),
        "traces_validated_against_impl": total["runs"],
        "evaluations": total["runs"],
        "distinct_nontrivial": total["nontrivial"],
        "samples": samples,
        "exhaustive": not abandoned_all,
    }
    return cov, viols
