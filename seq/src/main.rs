//! E3: bounded-exhaustive operation-history explorer (DESIGN.md §3.3).
mod elem;
mod exec;
mod hist;
mod kinds;
mod special;
mod suites;

use exec::*;
use hist::*;
use kinds::*;
use std::collections::BTreeMap;
use std::io::Write;
use std::sync::atomic::{AtomicU64, AtomicU8, AtomicUsize, Ordering::Relaxed};
use std::time::Instant;

#[global_allocator]
static ALLOC: orx_verif_shim::alloc::Counting = orx_verif_shim::alloc::Counting;

// ---- position of the running history, readable from a signal handler
static DUMP: std::sync::atomic::AtomicBool = std::sync::atomic::AtomicBool::new(false);
static CUR_UNIT: AtomicUsize = AtomicUsize::new(usize::MAX);
static CUR_INDEX: AtomicU64 = AtomicU64::new(0);
static CUR_TERM: AtomicUsize = AtomicUsize::new(0);
pub static CUR_STEP: AtomicUsize = AtomicUsize::new(0);
static CUR_DEPTH: AtomicUsize = AtomicUsize::new(0);
static CUR_PATH: [AtomicU8; 16] = [const { AtomicU8::new(0) }; 16];

extern "C" fn on_fatal_signal(sig: libc::c_int) {
    write_mark(b"\nABORT-MARK sig=", sig as u64, 70);
}

/// async-signal-safe: formats numbers by hand, write(2), _exit
fn write_mark(head: &[u8], sig: u64, code: i32) -> ! {
    // async-signal-safe: format numbers by hand, write(2), _exit
    let mut buf = [0u8; 256];
    let mut n = 0;
    let mut put = |s: &[u8], n: &mut usize| {
        for &b in s {
            if *n < 255 {
                buf[*n] = b;
                *n += 1;
            }
        }
    };
    fn num(mut v: u64, out: &mut [u8; 24]) -> usize {
        let mut i = 0;
        if v == 0 {
            out[0] = b'0';
            return 1;
        }
        let mut tmp = [0u8; 24];
        while v > 0 {
            tmp[i] = b'0' + (v % 10) as u8;
            v /= 10;
            i += 1;
        }
        for j in 0..i {
            out[j] = tmp[i - 1 - j];
        }
        i
    }
    let mut d = [0u8; 24];
    put(head, &mut n);
    let l = num(sig, &mut d);
    put(&d[..l], &mut n);
    put(b" unit=", &mut n);
    let l = num(CUR_UNIT.load(Relaxed) as u64, &mut d);
    put(&d[..l], &mut n);
    put(b" index=", &mut n);
    let l = num(CUR_INDEX.load(Relaxed), &mut d);
    put(&d[..l], &mut n);
    put(b" term=", &mut n);
    let l = num(CUR_TERM.load(Relaxed) as u64, &mut d);
    put(&d[..l], &mut n);
    put(b" step=", &mut n);
    let l = num(CUR_STEP.load(Relaxed) as u64, &mut d);
    put(&d[..l], &mut n);
    put(b" path=", &mut n);
    let depth = CUR_DEPTH.load(Relaxed).min(16);
    for i in 0..depth {
        let l = num(CUR_PATH[i].load(Relaxed) as u64, &mut d);
        put(&d[..l], &mut n);
        put(b",", &mut n);
    }
    put(b"\n", &mut n);
    unsafe {
        libc::write(2, buf.as_ptr() as *const libc::c_void, n);
        libc::_exit(code);
    }
}

/// a history that does not return is a violation, not a reason to block the whole run:
/// the watchdog reports the position of the stuck history and ends the process
fn start_watchdog(limit: std::time::Duration) {
    std::thread::spawn(move || {
        // measured in CPU time of this process: a spinning call burns CPU, a process that is merely starved
        // by other load does not, so machine load cannot produce a false verdict
        fn cpu() -> std::time::Duration {
            let mut ts = libc::timespec { tv_sec: 0, tv_nsec: 0 };
            unsafe { libc::clock_gettime(libc::CLOCK_PROCESS_CPUTIME_ID, &mut ts) };
            std::time::Duration::new(ts.tv_sec as u64, ts.tv_nsec as u32)
        }
        let mut last = (usize::MAX, 0u64);
        let mut since = cpu();
        loop {
            std::thread::sleep(std::time::Duration::from_millis(200));
            let cur = (CUR_UNIT.load(Relaxed), CUR_INDEX.load(Relaxed));
            if cur != last {
                last = cur;
                since = cpu();
            } else if cur.0 != usize::MAX && cpu().saturating_sub(since) > limit {
                write_mark(b"\nHANG-MARK sig=", 0, 71);
            }
        }
    });
}

fn install_signal_handlers() {
    unsafe {
        for s in [libc::SIGABRT, libc::SIGSEGV, libc::SIGBUS, libc::SIGILL, libc::SIGFPE] {
            libc::signal(s, on_fatal_signal as *const () as usize);
        }
    }
}

thread_local! {
    static LAST_PANIC: std::cell::RefCell<String> = const { std::cell::RefCell::new(String::new()) };
}
fn install_quiet_hook() {
    std::panic::set_hook(Box::new(|info| {
        // must not leave allocation tracking on / allocate while tracking
        let t = orx_verif_shim::alloc::track(false);
        let loc = info.location().map(|l| format!("{}:{}", l.file(), l.line())).unwrap_or_default();
        let msg = if let Some(s) = info.payload().downcast_ref::<&str>() {
            s.to_string()
        } else if let Some(s) = info.payload().downcast_ref::<String>() {
            s.clone()
        } else {
            "<non-string panic payload>".to_string()
        };
        LAST_PANIC.with(|p| *p.borrow_mut() = format!("{msg} @ {loc}"));
        orx_verif_shim::alloc::track(t);
    }));
}

#[inline]
fn fnv(h: u64, x: u64) -> u64 {
    (h ^ x).wrapping_mul(0x100000001b3).rotate_left(23) ^ x.wrapping_mul(0x9E37_79B9_7F4A_7C15)
}

#[derive(Clone, Debug)]
pub struct VAgg {
    pub count: u64,
    pub hist: String,
    pub term: String,
    pub len: usize,
    pub detail: String,
    pub hlen: usize,
}

pub struct UnitResult {
    pub unit: usize,
    pub kind: &'static str,
    pub len: usize,
    pub first: String,
    pub histories: u64,
    pub runs: u64,
    pub ops: u64,
    pub hash: u64,
    pub model_states: u64,
    pub viols: BTreeMap<(String, String), VAgg>,
    pub panics: u64,
    pub sample: String,
}

/// one execution of (hist, term), panics caught
fn run_case(kind: KindId, mode: Mode, env: &mut Env, hist: &[SOp], term: Term, pair: Option<KindId>, pair_env: &mut Env) -> u64 {
    let r = std::panic::catch_unwind(std::panic::AssertUnwindSafe(|| exec_one(kind, mode, env, hist, term)));
    if r.is_err() {
        orx_verif_shim::alloc::track(false);
        let m = LAST_PANIC.with(|p| p.borrow().clone());
        let step = env.step;
        env.viol = None;
        env.obs.push(MK_PANIC | step as u64);
        env.fail(T_ANY, "panic", format!("panicked: {m}"));
    }
    let mut h = 0xcbf29ce484222325u64;
    for &x in &env.obs {
        h = fnv(h, x);
    }
    if let Some(u) = pair {
        // C13: the same history on the underlying reference-yielding iterator
        let r2 = std::panic::catch_unwind(std::panic::AssertUnwindSafe(|| exec_one(u, mode, pair_env, hist, term)));
        if r2.is_err() {
            orx_verif_shim::alloc::track(false);
            pair_env.viol = None;
            pair_env.obs.push(MK_PANIC);
        }
        // clone bookkeeping differs by construction (clone counters are in the ledger tokens): compare
        // everything up to the ledger section
        let cut = |o: &[u64]| o.iter().position(|x| *x & MK_MASK == MK_LEDGER).unwrap_or(o.len());
        let (a, b) = (&env.obs[..cut(&env.obs)], &pair_env.obs[..cut(&pair_env.obs)]);
        if a != b && env.ok() {
            let i = a.iter().zip(b.iter()).position(|(x, y)| x != y).unwrap_or(a.len().min(b.len()));
            env.fail(&["C13"], "lockstep-mismatch", format!("observation #{i} differs from the underlying reference-yielding iterator driven by the same history (adaptor {:#x?} vs underlying {:#x?})", a.get(i), b.get(i)));
        }
    }
    h
}

fn note_violation(res: &mut UnitResult, env: &Env, ki: &KindInfo, hist: &[SOp], term: Term) {
    for v in env.viol.iter().chain(env.qviols.iter()) {
        let mut tags: Vec<&str> = v.tags.to_vec();
        if ki.adaptor && !tags.contains(&"C13") && !tags.contains(&"*") {
            tags.push("C13");
        }
        // the history up to and including the failing step reproduces the violation
        let upto = if v.step < hist.len() { v.step + 1 } else { hist.len() };
        let hs = show_hist(&hist[..upto]);
        let key = (tags.join("+"), v.class.to_string());
        let e = res.viols.entry(key).or_insert_with(|| VAgg { count: 0, hist: hs.clone(), term: term.show(), len: env.code, detail: v.detail.clone(), hlen: upto + 100 });
        e.count += 1;
        if upto < e.hlen {
            e.hlen = upto;
            e.hist = hs;
            e.term = term.show();
            e.len = env.code;
            e.detail = v.detail.clone();
        }
    }
}

/// depth-first enumeration of every history that starts with `first` (or the empty history)
fn run_unit(unit: usize, s: &suites::Suite, kind: KindId, len: usize, first: Option<usize>, skip: &[u64], skipsub: &[Vec<usize>]) -> UnitResult {
    let ki = kind.info();
    let mut env = Env::new(ki, len);
    env.allow_zero = s.allow_zero;
    let pair = if s.pair { kind.underlying() } else { None };
    let mut pair_env = Env::new(pair.map(|k| k.info()).unwrap_or(ki), len);
    let mut res = UnitResult { unit, kind: ki.name, len, first: first.map(|i| s.alphabet[i].show()).unwrap_or_default(), histories: 0, runs: 0, ops: 0, hash: 0xcbf29ce484222325, model_states: 0, viols: BTreeMap::new(), panics: 0, sample: String::new() };
    let mut states = std::collections::HashSet::new();
    let mut hist: Vec<SOp> = vec![];
    let mut stack: Vec<usize> = vec![];
    if let Some(f) = first {
        hist.push(s.alphabet[f]);
        stack.push(f);
    }
    let base_depth = hist.len();
    let mut index: u64 = 0;
    CUR_UNIT.store(unit, Relaxed);
    loop {
        // visit node `hist` with every terminal
        let mut dead_at: Option<usize> = None;
        if skipsub.iter().any(|p| stack.len() >= p.len() && stack[..p.len()] == p[..]) {
            // a history with this prefix aborted the process inside the prefix: every extension does
            dead_at = Some(0);
        }
        res.histories += 1;
        CUR_DEPTH.store(stack.len().min(16), Relaxed);
        for (d, &sym) in stack.iter().enumerate().take(16) {
            CUR_PATH[d].store(sym as u8, Relaxed);
        }
        for (ti, &term) in s.terms.iter().enumerate() {
            index += 1;
            CUR_INDEX.store(index, Relaxed);
            CUR_TERM.store(ti, Relaxed);
            if skip.contains(&index) || dead_at.is_some() {
                continue;
            }
            let h = run_case(kind, s.mode, &mut env, &hist, term, pair, &mut pair_env);
            if DUMP.load(Relaxed) {
                println!("{h:016x} {}|{}", show_hist(&hist), term.show());
            }
            res.runs += 1;
            res.ops += hist.len() as u64 + 1;
            res.hash = fnv(res.hash, h);
            states.insert((env.m.cursor.min(len), env.m.skipped, env.m.end1));
            if env.viol.is_some() || !env.qviols.is_empty() {
                if env.viol.as_ref().map_or(false, |v| v.class == "panic") {
                    res.panics += 1;
                }
                note_violation(&mut res, &env, &ki, &hist, term);
                if let Some(v) = env.viol.as_ref() {
                    if v.step < hist.len() {
                        dead_at = Some(v.step);
                        break; // the other terminals fail at the same step
                    }
                }
            }
        }
        if res.sample.is_empty() && hist.len() == s.depth {
            res.sample = format!("{}|{}", show_hist(&hist), s.terms[0].show());
        }
        // descend unless the history already failed strictly inside (extensions fail identically)
        let may_descend = first.is_some() && hist.len() < s.depth && dead_at.is_none();
        if may_descend {
            hist.push(s.alphabet[0]);
            stack.push(0);
            continue;
        }
        // advance to the next sibling
        loop {
            if hist.len() <= base_depth {
                res.model_states = states.len() as u64;
                return res;
            }
            let i = stack.pop().unwrap() + 1;
            hist.pop();
            if i < s.alphabet.len() {
                hist.push(s.alphabet[i]);
                stack.push(i);
                break;
            }
        }
    }
}

fn jstr(s: &str) -> String {
    let mut o = String::with_capacity(s.len() + 2);
    o.push('"');
    for c in s.chars() {
        match c {
            '"' => o.push_str("\\\""),
            '\\' => o.push_str("\\\\"),
            '\n' => o.push_str("\\n"),
            '\t' => o.push_str("\\t"),
            c if (c as u32) < 0x20 => o.push_str(&format!("\\u{:04x}", c as u32)),
            c => o.push(c),
        }
    }
    o.push('"');
    o
}

fn arg<'a>(args: &'a [String], name: &str) -> Option<&'a str> {
    args.iter().position(|a| a == name).and_then(|i| args.get(i + 1)).map(|s| s.as_str())
}

fn unit_json(r: &UnitResult, suite: &str, secs: f64) -> String {
    let viols: Vec<String> = r
        .viols
        .iter()
        .map(|((tags, class), v)| {
            format!(
                "{{\"tags\":{},\"class\":{},\"count\":{},\"kind\":{},\"len\":{},\"history\":{},\"term\":{},\"msg\":{}}}",
                jstr(tags),
                jstr(class),
                v.count,
                jstr(r.kind),
                v.len,
                jstr(&v.hist),
                jstr(&v.term),
                jstr(&v.detail)
            )
        })
        .collect();
    format!(
        "{{\"suite\":{},\"unit\":{},\"kind\":{},\"len\":{},\"first\":{},\"histories\":{},\"runs\":{},\"ops\":{},\"hash\":\"{:016x}\",\"model_states\":{},\"panics\":{},\"sample\":{},\"secs\":{:.4},\"violations\":[{}]}}",
        jstr(suite),
        r.unit,
        jstr(r.kind),
        r.len,
        jstr(&r.first),
        r.histories,
        r.runs,
        r.ops,
        r.hash,
        r.model_states,
        r.panics,
        jstr(&r.sample),
        secs,
        viols.join(",")
    )
}

fn main() {
    let args: Vec<String> = std::env::args().skip(1).collect();
    install_signal_handlers();
    install_quiet_hook();
    let limit: u64 = std::env::var("SEQ_HANG_SECS").ok().and_then(|x| x.parse().ok()).unwrap_or(20);
    start_watchdog(std::time::Duration::from_secs(limit));
    let code = match args.first().map(|s| s.as_str()) {
        Some("run") => run_cmd(&args[1..]),
        Some("replay") => replay_cmd(&args[1..]),
        Some("alphabet") => {
            let s = suites::suite(arg(&args, "--suite").unwrap_or("main"), arg(&args, "--tier") == Some("thorough"));
            println!("{}", s.alphabet.iter().map(|o| o.show()).collect::<Vec<_>>().join(" "));
            println!("{}", s.terms.iter().map(|o| o.show()).collect::<Vec<_>>().join(" "));
            for (u, (k, l, f)) in s.units().iter().enumerate() {
                println!("{u} {} {l} {}", k.info().name, f.map(|i| s.alphabet[i].show()).unwrap_or_else(|| "-".into()));
            }
            0
        }
        Some("dump") => dump_cmd(&args[1..]),
        Some("units") => {
            let s = suites::suite(arg(&args, "--suite").unwrap_or("main"), arg(&args, "--tier") == Some("thorough"));
            println!("{}", s.units().len());
            0
        }
        _ => {
            eprintln!("usage: seq run --suite S [--tier T] --shard i/n --out FILE [--state FILE] | seq replay --suite S --kind K --len L --history H --term T");
            2
        }
    };
    std::process::exit(code);
}

/// `--state FILE`: json-ish text written by the driver: lines `done <unit>` and `skip <unit> <index>`
fn run_cmd(args: &[String]) -> i32 {
    let sname = arg(args, "--suite").unwrap_or("main").to_string();
    let thorough = arg(args, "--tier") == Some("thorough");
    let s = suites::suite(&sname, thorough);
    let (si, sn) = arg(args, "--shard").and_then(|s| s.split_once('/')).map(|(a, b)| (a.parse::<usize>().unwrap_or(0), b.parse::<usize>().unwrap_or(1))).unwrap_or((0, 1));
    let seed: usize = arg(args, "--seed").and_then(|s| s.parse().ok()).unwrap_or(0);
    let out = arg(args, "--out").unwrap_or("/dev/stdout");
    let mut done: Vec<usize> = vec![];
    let mut skips: Vec<(usize, u64)> = vec![];
    let mut subs: Vec<(usize, Vec<usize>)> = vec![];
    if let Some(st) = arg(args, "--state") {
        if let Ok(txt) = std::fs::read_to_string(st) {
            for l in txt.lines() {
                let p: Vec<&str> = l.split_whitespace().collect();
                match p.as_slice() {
                    ["done", u] => done.push(u.parse().unwrap_or(usize::MAX)),
                    ["skip", u, i] => skips.push((u.parse().unwrap_or(usize::MAX), i.parse().unwrap_or(0))),
                    ["skipsub", u, path] => subs.push((u.parse().unwrap_or(usize::MAX), path.split(',').filter(|x| !x.is_empty()).map(|x| x.parse().unwrap_or(0)).collect())),
                    _ => {}
                }
            }
        }
    }
    let mut f = match std::fs::OpenOptions::new().create(true).append(true).open(out) {
        Ok(f) => f,
        Err(e) => {
            eprintln!("cannot open {out}: {e}");
            return 2;
        }
    };
    let units = s.units();
    for (u, &(kind, len, first)) in units.iter().enumerate() {
        if ((u + seed).wrapping_mul(0x9E37_79B9) >> 11) % sn != si || done.contains(&u) {
            continue;
        }
        let sk: Vec<u64> = skips.iter().filter(|x| x.0 == u).map(|x| x.1).collect();
        let t = Instant::now();
        let sb: Vec<Vec<usize>> = subs.iter().filter(|x| x.0 == u).map(|x| x.1.clone()).collect();
        let r = run_unit(u, &s, kind, len, first, &sk, &sb);
        let line = unit_json(&r, &sname, t.elapsed().as_secs_f64());
        if writeln!(f, "{line}").is_err() {
            return 2;
        }
        let _ = f.flush();
    }
    CUR_UNIT.store(usize::MAX, Relaxed);
    0
}

/// `dump --suite S --unit u`: one line per run of the unit: `<hash> <history>|<term>` (for C17 localisation)
fn dump_cmd(args: &[String]) -> i32 {
    let sname = arg(args, "--suite").unwrap_or("main").to_string();
    let s = suites::suite(&sname, arg(args, "--tier") == Some("thorough"));
    let u: usize = arg(args, "--unit").and_then(|x| x.parse().ok()).unwrap_or(0);
    let units = s.units();
    if u >= units.len() {
        return 2;
    }
    let (kind, len, first) = units[u];
    DUMP.store(true, Relaxed);
    let _ = run_unit(u, &s, kind, len, first, &[], &[]);
    0
}

fn replay_cmd(args: &[String]) -> i32 {
    let sname = arg(args, "--suite").unwrap_or("main").to_string();
    let s = suites::suite(&sname, false);
    let kind = match arg(args, "--kind").and_then(KindId::parse) {
        Some(k) => k,
        None => {
            eprintln!("bad --kind");
            return 2;
        }
    };
    let len: usize = arg(args, "--len").and_then(|x| x.parse().ok()).unwrap_or(0);
    let hist = match parse_hist(arg(args, "--history").unwrap_or("")) {
        Ok(h) => h,
        Err(e) => {
            eprintln!("{e}");
            return 2;
        }
    };
    let term = Term::parse(arg(args, "--term").unwrap_or("drop")).unwrap_or(Term::Drop);
    let ki = kind.info();
    let mut env = Env::new(ki, len);
    env.allow_zero = s.allow_zero;
    let pair = if s.pair { kind.underlying() } else { None };
    let mut pair_env = Env::new(pair.map(|k| k.info()).unwrap_or(ki), len);
    let mut hashes = vec![];
    CUR_UNIT.store(0, Relaxed);
    for _ in 0..2 {
        hashes.push(run_case(kind, s.mode, &mut env, &hist, term, pair, &mut pair_env));
    }
    println!("suite={sname} kind={} len={len} history={} term={}", ki.name, show_hist(&hist), term.show());
    println!("transcript hash {:016x} (second run {:016x})", hashes[0], hashes[1]);
    println!("observations: {:x?}", env.obs);
    if hashes[0] != hashes[1] {
        println!("NONDETERMINISTIC: two runs of the same history differ");
        return 2;
    }
    let mut n = 0;
    for v in env.viol.iter().chain(env.qviols.iter()) {
        println!("VIOLATION-REPRODUCED tags={:?} class={} step={}: {}", v.tags, v.class, v.step, v.detail);
        n += 1;
    }
    if n == 0 {
        println!("no violation on this history");
        0
    } else {
        1
    }
}

#[allow(dead_code)]
fn unused() {
    let _ = (AtomicU8::new(0), ALL_KINDS.len());
}
