//! Suites: alphabet x kinds x lengths x depth x terminals, per property (DESIGN.md §5).
use crate::hist::*;
use crate::kinds::*;

pub struct Suite {
    #[allow(dead_code)]
    pub name: String,
    pub kinds: Vec<KindId>,
    pub lens: Vec<usize>,
    pub alphabet: Vec<SOp>,
    pub depth: usize,
    pub terms: Vec<Term>,
    /// run every history also on the underlying reference-yielding iterator (C13)
    pub pair: bool,
    pub allow_zero: bool,
    pub mode: Mode,
    /// additional (kind, len-code) pairs outside the kinds x lens product
    pub extra_units: Vec<(KindId, usize)>,
}

impl Suite {
    /// work units: (kind, len, first symbol) plus the empty history per (kind, len)
    pub fn units(&self) -> Vec<(KindId, usize, Option<usize>)> {
        let mut u = vec![];
        for &k in &self.kinds {
            for &l in &self.lens {
                if matches!(k, KindId::OArray | KindId::ArrayRef | KindId::ClonedArrayRef | KindId::OArray24 | KindId::OArrayBox | KindId::OArrayZst) && l > 6 {
                    continue;
                }
                u.push((k, l, None));
                for i in 0..self.alphabet.len() {
                    u.push((k, l, Some(i)));
                }
            }
        }
        for &(k, l) in &self.extra_units {
            u.push((k, l, None));
            for i in 0..self.alphabet.len() {
                u.push((k, l, Some(i)));
            }
        }
        u
    }
}

pub const MAIN: [&str; 16] = ["N", "I", "C2:a", "C3:1", "C1:0", "HC2", "HN1", "HD", "BN2", "BXa", "BX1", "BD", "S", "EF2", "V", "CMx:1"];

fn kinds_where(f: impl Fn(&crate::exec::KindInfo) -> bool) -> Vec<KindId> {
    ALL_KINDS.iter().copied().filter(|k| f(&k.info())).collect()
}
fn small_kinds() -> Vec<KindId> {
    // every kind except the element-size variants
    ALL_KINDS.iter().copied().filter(|k| !matches!(k, KindId::OVec24 | KindId::OArray24 | KindId::Iter24 | KindId::OVecBox | KindId::OArrayBox | KindId::IterBox | KindId::OVecZst | KindId::OArrayZst | KindId::SliceZst | KindId::RangeX | KindId::IterNonFusedExact)).collect()
}

pub fn suite(name: &str, thorough: bool) -> Suite {
    let t3 = vec![Term::Drop, Term::Seq(ALL), Term::Seq(1)];
    let l04: Vec<usize> = (0..=4).collect();
    let l06: Vec<usize> = (0..=6).collect();
    let lens = if thorough { l06.clone() } else { l04.clone() };
    let mut s = Suite { name: name.to_string(), kinds: small_kinds(), lens, alphabet: alphabet(&MAIN), depth: if thorough { 6 } else { 5 }, terms: t3.clone(), pair: false, allow_zero: false, mode: Mode::Normal, extra_units: vec![] };
    match name {
        "main" | "C04" | "C17" => {
            if name == "C04" {
                s.extra_units = [(3usize, 5usize), (6, 8), (7, 8)].iter().map(|(a, b)| (KindId::RangeX, a * 16 + b)).collect();
                s.alphabet = alphabet(&["N", "I", "C2:a", "C3:1", "C1:0", "HC2", "HN1", "HD", "BN2", "BXa", "BX1", "BD", "S", "EF2", "V", "W", "FE1", "FO2", "CMx:1"]);
                s.depth = if thorough { 5 } else { 4 };
            }
            if name == "C17" {
                // (the element-size and boxed variants are exercised by C15; leaving them out here keeps the quick tier short)
                s.kinds = if thorough { ALL_KINDS.iter().copied().filter(|k| *k != KindId::RangeX).collect() } else { small_kinds() };
                s.depth = if thorough { 5 } else { 4 };
                s.terms = vec![Term::Drop, Term::Seq(ALL), Term::Seq(1), Term::Seq(0)];
                s.allow_zero = true;
                s.alphabet = alphabet(&["N", "I", "C2:a", "C3:1", "C1:0", "HC2", "HN1", "HD", "BN2", "BXa", "BX1", "BD", "S", "EF2", "V", "CMx:1", "BN0", "FE0", "FO0", "C0:a"]);
                s.extra_units = [(2usize, 1usize), (8, 8), (6, 8), (3, 5), (1, 2), (8, 6)].iter().map(|(a, b)| (KindId::RangeX, a * 16 + b)).collect();
            }
        }
        "C03" => {
            s.kinds.extend([KindId::OVecZst, KindId::OArrayZst, KindId::SliceZst]);
            s.alphabet = alphabet(&["N", "C1:a", "C2:a", "C2:1", "C3:0", "C3:a", "CL0:a", "CL1:a", "CL1:1", "BN1", "BN2", "BN3", "BNL1", "BNMx", "BXa", "BX1", "BX0", "S", "HC3", "HN1", "HD", "CV3:1", "CV2:9", "CV3:20", "CV2:21", "CV3:22", "BV1", "BV9"]);
            s.depth = if thorough { 5 } else { 4 };
            s.terms = vec![Term::Drop, Term::Seq(ALL)];
        }
        "C05" => {
            if !thorough {
                // thin constructor variants of the slice / range iterators are left to the thorough tier
                s.kinds.retain(|k| !matches!(k, KindId::ArrayRef | KindId::ClonedArrayRef | KindId::ClonedVecRef | KindId::RangeInto));
            }
            s.kinds.push(KindId::IterNonFusedExact);
            s.alphabet = alphabet(&["N", "I", "C2:a", "C3:1", "CL1:0", "BN2", "BXa", "BX1", "BD", "EF2", "FE1", "V", "FO3", "L", "S", "CHh:1"]);
            // short ranges near the top of usize (cumulative requests stay below usize::MAX with one chunk of usize::MAX/2)
            s.extra_units = [(3usize, 5usize), (6, 8), (4, 5), (7, 8)].iter().map(|(a, b)| (KindId::RangeX, a * 16 + b)).collect();
            s.terms = vec![Term::Drop, Term::Seq(ALL)];
        }
        "C06" => {
            s.alphabet = alphabet(&["S", "N", "I", "C2:a", "C3:1", "BN2", "BXa", "BX1", "BD", "HC2", "HN1", "HD", "EF2", "H", "CMx:a", "CHp1:1", "FS2:1", "FS1:2"]);
        }
        "C08" | "C15" if false => {}
        "C08" => {
            s.alphabet = alphabet(&["N", "I", "C2:a", "C3:1", "C1:0", "HC2", "HN1", "HD", "BN2", "BXa", "BX1", "BD", "S", "EF2", "V", "CMx:1", "CV3:1", "CV2:9", "CV3:22", "BV1", "BV9", "BV21", "FS2:1"]);
            s.depth = if thorough { 5 } else { 4 };
            s.kinds = kinds_where(|k| k.consuming).into_iter().filter(|k| !matches!(k, KindId::OVecBox | KindId::OArrayBox | KindId::IterBox | KindId::OVec24 | KindId::OArray24 | KindId::Iter24)).collect();
            s.kinds.extend([KindId::OVecZst, KindId::OArrayZst]);
            s.terms = vec![Term::Drop, Term::Seq(ALL), Term::Seq(1), Term::Seq(0)];
        }
        "C15" => {
            s.alphabet = alphabet(&["N", "I", "C2:a", "C3:1", "C1:0", "HC2", "HN1", "HD", "BN2", "BXa", "BX1", "BD", "S", "EF2", "V", "CMx:1", "CV3:1", "CV2:9", "CV3:20", "CV3:22", "BV1", "BV9"]);
            s.kinds = kinds_where(|k| k.consuming);
            s.terms = vec![Term::Drop, Term::Seq(ALL), Term::Seq(1), Term::Seq(0)];
            s.depth = if thorough { 5 } else { 4 };
        }
        "C10" => {
            s.alphabet = alphabet(&["N", "I", "C2:a", "C3:1", "CL1:a", "C1:0", "HC2", "HN1", "HD", "BN2", "BN3", "BXa", "BX1", "BD", "S", "EF2", "CMx:1", "CHp1:a"]);
            s.terms = vec![Term::Seq(ALL), Term::Seq(1)];
            s.depth = if thorough { 5 } else { 4 };
        }
        "C11" => {
            s.alphabet = alphabet(&["N", "I", "C2:a", "C3:1", "CL1:a", "BN2", "BXa", "BX1", "BD", "S", "EF2", "FE1", "L", "H"]);
            s.terms = vec![Term::Drop];
        }
        "C12" => {
            s.alphabet = alphabet(&["FE1", "FE2", "FE3", "EF1", "EF2", "EF3", "FO1", "FO2", "FO3", "N", "C2:1", "BN2", "BX1", "S", "FEMx", "EFHp1", "FOMx", "FS1:1", "FS2:1", "FS3:2"]);
            s.terms = vec![Term::Drop, Term::Seq(ALL)];
            s.depth = if thorough { 5 } else { 4 };
        }
        "C13" => {
            s.kinds = kinds_where(|k| k.adaptor);
            s.pair = true;
            s.alphabet = alphabet(&["N", "I", "C2:a", "C3:1", "C1:0", "HC2", "HN1", "HD", "BN2", "BXa", "BX1", "BD", "S", "EF2", "V", "L", "H", "FO2", "C0:a", "CMx:1", "FS2:1", "FS3:2"]);
            s.depth = if thorough { 5 } else { 4 };
        }
        "C16" => {
            // every kind, extreme one-shot and buffered chunk sizes, zero sizes (documented panics)
            s.allow_zero = true;
            s.lens = vec![0, 1, 2, 3];
            s.alphabet = alphabet(&["N", "C0:a", "C1:a", "CL0:a", "CL1:a", "CHh:a", "CHp1:1", "CMm1:a", "CMx:a", "CMx:0", "BNMx", "BNHp1", "BN2", "BXa", "BX1", "BD", "S", "FE0", "BN0", "FO0", "EF0", "I"]);
            s.depth = if thorough { 5 } else { 3 };
            s.terms = vec![Term::Drop, Term::Seq(ALL)];
        }
        "C16R" => {
            // ranges with bounds from the grid {0,1,7,M/2-1,M/2,M/2+1,M-2,M-1,M}^2 (incl. empty and inverted)
            s.allow_zero = true;
            s.kinds = vec![KindId::RangeX];
            s.lens = (0..9).flat_map(|a| (0..9).map(move |b| a * 16 + b)).collect();
            s.alphabet = alphabet(&["N", "I", "C0:2", "C1:2", "C2:2", "C7:2", "CHh:2", "CHp1:2", "CMm1:2", "CMx:2", "BN1", "BN7", "BNHp1", "BNMx", "BX2", "BD", "S", "BN0", "FE0"]);
            s.depth = if thorough { 5 } else { 3 };
            s.terms = vec![Term::Drop, Term::Seq(2)];
        }
        "C14" => {
            // every safe public entry point incl. the low-level traits, on consuming collections
            s.mode = Mode::LowLevel;
            s.kinds = vec![KindId::OVec, KindId::OArray];
            s.lens = vec![1, 2, 3];
            s.alphabet = alphabet(&["N", "C2:a", "BN2", "BXa", "S", "F1", "FN2", "PR1", "PR2", "EE", "CA1", "CI", "CMx:a", "FNMx", "GET0", "GET1", "GETL0", "CS0", "CS1", "CSL0"]);
            s.depth = if thorough { 6 } else { 4 };
            s.terms = vec![Term::Drop, Term::Seq(ALL)];
        }
        "C02L" => {
            // positional low-level access on the wrapper: only calls that cannot wait for another thread
            s.mode = Mode::LowLevel;
            s.kinds = vec![KindId::IterExact, KindId::IterUnk];
            s.lens = vec![0, 1, 2, 3, 4];
            s.alphabet = alphabet(&["N", "C2:a", "BN2", "BXa", "S", "F1", "FN2", "FN3", "GETP", "EE"]);
            s.depth = if thorough { 6 } else { 5 };
            s.terms = vec![Term::Drop, Term::Seq(ALL)];
        }
        "C19" => {
            s.mode = Mode::Multi;
            s.kinds = vec![KindId::Slice, KindId::VecRef, KindId::ArrayRef, KindId::Range5];
            s.alphabet = alphabet(&["N", "I", "C2:a", "C3:1", "BN2", "BN3", "S", "NI", "CL", "SEL0", "SEL1", "SEL2", "CMx:1"]);
            s.depth = if thorough { 7 } else { 5 };
            s.terms = vec![Term::Drop, Term::Seq(ALL)];
        }
        "C02" => {
            s.alphabet = alphabet(&["I", "W", "C2:a", "C3:1", "BN2", "BN3", "BXa", "BX1", "EF1", "EF2", "EF3", "N", "S", "HC2", "HN1"]);
            s.terms = vec![Term::Drop];
            s.depth = if thorough { 5 } else { 4 };
        }
        _ => {}
    }
    s
}
