"""Per-property checks: which engines decide a property and how their results become a verdict."""
import os, time, json, re, glob
from common import *

E1_ASSUMPTIONS = [
    "closed systems of 2-3 threads with the plans listed under coverage.rule; nothing is claimed beyond these bounds",
    "interleavings are sequentially consistent; synchronisation is judged by vector clocks computed from the memory orderings in the source (C11 release/acquire rules)",
    "assumption SPIN: a thread that repeats a read-only cycle with unchanged values keeps doing so until one of the values changes (HANG verdicts are double-checked by running the blocked threads further)",
    "atomics that bypass the hook (coverage.uninstrumented_atomics) are invisible to the scheduler",
    "compare_exchange_weak: the first would-succeed attempt of each thread at each location fails spuriously, later attempts behave like the strong form (one fixed environment choice, not all failure patterns; the pinned crate uses no CAS); state keys are 128-bit hashes of exact states",
]

def e1_diff_part(prop, tier, seed):
    """C17, concurrent leg: the same configuration family explored by two differently compiled E1 binaries;
    per configuration the set of outcomes (delivered positions per thread, query answers, panics, remainder)
    and the violation classes must be identical."""
    bins = {"release": build_conc("release"), "hdbg": build_conc("hdbg")}
    nsh = 32
    res = {}
    agg = {"configs": 0, "executions": 0, "states": 0, "transitions": 0, "complete_executions": 0}
    samples = []
    rundir = os.path.join(TARGET, "run")
    for prof, binary in bins.items():
        emit = os.path.join(rundir, f"{prop}-e1diff-{prof}.out")
        for f in glob.glob(emit + ".*"):
            os.remove(f)
        shards = run_shards(binary, ["prop", "--prop", prop, "--tier", tier, "--seed", str(seed), "--cfg-max-secs", "60", "--emit-outcomes", emit], nsh, os.path.join(rundir, f"{prop}-e1diff-{prof}"), 900)
        for s in shards:
            if s["engine_errors"]:
                raise MachineryError("; ".join(s["engine_errors"][:3]))
            for k in agg:
                agg[k] += s[k]
            if prof == "release":
                samples += s["samples"][:1]
        table = {}
        for f in glob.glob(emit + ".*"):
            for line in open(f):
                cli, oc, vc, capped = line.rstrip("\n").split("\t")
                table[cli] = (oc, vc, capped)
            os.remove(f)
        res[prof] = table
    viols = []
    a, b = res["release"], res["hdbg"]
    ndiff = 0
    for cli in sorted(set(a) | set(b)):
        if a.get(cli) != b.get(cli):
            ndiff += 1
            ra, rb = a.get(cli, ("", "", "")), b.get(cli, ("", "", ""))
            what = "violation classes differ" if ra[1] != rb[1] else "outcome sets differ"
            kind = re.search(r"--kind (\S+)", cli).group(1) if re.search(r"--kind (\S+)", cli) else "?"
            viols.append({"prop": prop, "engine": "E1", "class": "profile-diff-concurrent", "kind": kind, "cli": cli, "count": 1,
                          "msg": f"[{cli}] {what} between the optimized build (violations: {ra[1] or 'none'}; {len(ra[0].split(',')) if ra[0] else 0} outcomes) and the build with debug assertions + overflow checks (violations: {rb[1] or 'none'}; {len(rb[0].split(',')) if rb[0] else 0} outcomes)",
                          "replay_cmd": f"{bins['release']} one {cli}; {bins['hdbg']} one {cli}"})
    cov = {
        "engine_E1_two_profiles": {"configurations_per_profile": len(a), "configurations_with_differences": ndiff, "executions_both_profiles": agg["executions"], "states": agg["states"], "transitions": agg["transitions"]},
        "states": agg["states"], "transitions": agg["transitions"], "traces_validated_against_impl": agg["complete_executions"],
        "evaluations": agg["executions"], "distinct_nontrivial": len(a), "samples": samples[:2], "exhaustive": True,
    }
    return cov, viols

UNDERLYING = {"cloned_slice": "slice", "copied_slice": "slice", "cloned_vecref": "vecref", "cloned_iter": "ref_iter", "copied_iter": "ref_iter_unk"}

def e1_pair_part(prop, tier, seed):
    """C13, concurrent leg: the same closed systems explored on an adaptor and on its underlying reference-yielding
    iterator; per system the complete set of outcomes (which thread received which positions, answers of the length
    queries, remainder handed to into_seq_iter) and the violation classes must be identical."""
    binary = build_conc("release")
    nsh = 32
    fam = prop + "P"
    rundir = os.path.join(TARGET, "run")
    emit = os.path.join(rundir, f"{prop}-e1pair.out")
    for f in glob.glob(emit + ".*"):
        os.remove(f)
    agg = {"configs": 0, "executions": 0, "states": 0, "transitions": 0, "complete_executions": 0}
    samples = []
    shards = run_shards(binary, ["prop", "--prop", fam, "--tier", tier, "--seed", str(seed), "--cfg-max-secs", "60" if tier == "quick" else "600", "--emit-outcomes", emit], nsh, os.path.join(rundir, f"{prop}-e1pair"), 900 if tier == "quick" else 4 * 3600)
    for s in shards:
        if s["engine_errors"]:
            raise MachineryError("; ".join(s["engine_errors"][:3]))
        for k in agg:
            agg[k] += s[k]
        samples += s["samples"][:1]
    table = {}
    for f in glob.glob(emit + ".*"):
        for line in open(f):
            cli, oc, vc, capped = line.rstrip("\n").split("\t")
            kind = re.search(r"--kind (\S+)", cli).group(1)
            rest = re.sub(r"--kind \S+ ", "", cli)
            table[(kind, rest)] = (oc, vc, capped)
        os.remove(f)
    viols = []
    npairs = ndiff = ncapped = 0
    for (kind, rest), ra in sorted(table.items()):
        u = UNDERLYING.get(kind)
        if u is None:
            continue
        rb = table.get((u, rest))
        if rb is None:
            raise MachineryError(f"no run of the underlying kind {u} for [{rest}]")
        if ra[2] == "true" or rb[2] == "true":
            ncapped += 1
            continue
        npairs += 1
        if (ra[0], ra[1]) != (rb[0], rb[1]):
            ndiff += 1
            what = "violation classes differ" if ra[1] != rb[1] else "outcome sets differ"
            cli = f"--kind {kind} {rest}"
            viols.append({"prop": prop, "engine": "E1", "class": "adaptor-diff-concurrent", "kind": kind, "cli": cli, "count": 1,
                          "msg": f"[{cli}] {what} between the adaptor (violations: {ra[1] or 'none'}; {len(ra[0].split(',')) if ra[0] else 0} outcomes) and the underlying iterator --kind {u} driven by the same plans under all interleavings (violations: {rb[1] or 'none'}; {len(rb[0].split(',')) if rb[0] else 0} outcomes)",
                          "replay_cmd": f"{binary} one {cli}; {binary} one --kind {u} {rest}"})
    cov = {
        "engine_E1_adaptor_vs_underlying": {"systems_compared": npairs, "systems_with_differences": ndiff, "capped_systems_not_compared": ncapped, "configurations": len(table), "executions": agg["executions"], "states": agg["states"], "transitions": agg["transitions"]},
        "states": agg["states"], "transitions": agg["transitions"], "traces_validated_against_impl": agg["complete_executions"],
        "evaluations": agg["executions"], "distinct_nontrivial": npairs, "samples": samples[:2], "exhaustive": ncapped == 0,
    }
    return cov, viols

def e1_part(prop, tier, seed, level="model_checking", profile="release"):
    binary = build_conc(profile)
    nsh = 64 if tier == "quick" else 128
    args = ["prop", "--prop", prop, "--tier", tier, "--seed", str(seed)]
    if tier == "quick":
        args += ["--cfg-max-secs", "60"]
    else:
        args += ["--cfg-max-secs", "600"]
    cap = 1800 if tier == "quick" else 6 * 3600
    aborts = []
    shards = run_shards(binary, args, nsh, os.path.join(TARGET, "run", f"{prop}-e1-{profile}"), cap, aborts)
    agg = {k: 0 for k in ("configs", "executions", "complete_executions", "states", "transitions", "pruned", "waited_execs", "hang_execs", "nontrivial_configs", "nontrivial_outcomes", "distinct_outcomes", "expect_hang_configs", "expect_hang_seen")}
    capped, errors, samples, viols = [], [], [], []
    maxpre = 0
    for s in shards:
        for k in agg:
            agg[k] += s[k]
        capped += s["capped"]
        errors += s["engine_errors"]
        samples += s["samples"]
        viols += s["violations"]
        maxpre = max(maxpre, s["max_preemptions"])
    if errors:
        raise MachineryError("; ".join(errors[:3]))
    eng = [v for v in viols if v["prop"] == "ENGINE"]
    if eng:
        raise MachineryError(f"engine-level problem in {eng[0]['cli']}: {eng[0]['msg']}")
    mine = []
    for v in viols:
        if v["prop"] == prop or v["prop"] == "PANIC":
            v = dict(v)
            v["prop"] = prop
            v["engine"] = "E1"
            v["replay_cmd"] = f"{binary} replay {v['cli']} --schedule {v['schedule']} --expect {prop if v['class']!='unexpected-panic' and v['class']!='final-check-panicked' else 'PANIC'}/{v['class']}"
            mine.append(v)
    for a in aborts:
        kind = re.search(r"--kind (\S+)", a["cli"])
        mine.append({"prop": prop, "engine": "E1", "class": "abort", "kind": kind.group(1) if kind else "?", "cli": a["cli"], "count": 1, "schedule": "",
                     "msg": f"[{a['cli']}] the process aborts ({profile} build): non-unwinding panic: {a['panic']}",
                     "replay_cmd": f"{binary} one {a['cli']}"})
    cov = {
        ("engine_E1" if profile == "release" else f"engine_E1_{profile}"): {
            "configurations": agg["configs"],
            "executions": agg["executions"],
            "complete_executions": agg["complete_executions"],
            "states": agg["states"],
            "transitions": agg["transitions"],
            "pruned_on_visited_state": agg["pruned"],
            "executions_with_a_waiting_thread": agg["waited_execs"],
            "hang_executions": agg["hang_execs"],
            "configurations_with_more_than_one_outcome": agg["nontrivial_configs"],
            "distinct_outcomes": agg["distinct_outcomes"],
            "max_preemptions_in_one_execution": maxpre,
            "capped_configurations": capped[:20],
            "n_capped": len(capped),
            "freeze_adversary_nonvacuity": {"blocking_wrapper_configs": agg["expect_hang_configs"], "of_which_hang_found": agg["expect_hang_seen"]},
            "other_property_violations_seen": sorted({f"{v['prop']}/{v['class']}" for v in viols if v["prop"] not in (prop, "PANIC")}),
        },
        "states": agg["states"],
        "transitions": agg["transitions"],
        "traces_validated_against_impl": agg["complete_executions"],
        "evaluations": agg["executions"],
        "distinct_nontrivial": agg["nontrivial_outcomes"],
        "samples": samples[:6],
        "exhaustive": len(capped) == 0 and len(shards) == nsh,
    }
    return cov, mine

RULES = {
    "E1": "every configuration = (source kind, length, per-thread operation plans, final action, fault/freeze point) of the family enumerated in conc/src/configs.rs for this property; for each, ALL interleavings of the crate's atomic operations are explored on the real code (2 threads: complete stateful exploration; 3 threads: preemption-bounded, bound 2 quick / 3 thorough). distinct_nontrivial = number of distinct (configuration, outcome) pairs over configurations whose interleavings produce more than one outcome (the threads really collided).",
}

def finish(prop, tier, seed, level, cov, violations, assumptions, t0):
    """classify, print, write evidence; returns the exit code"""
    clear_replays(prop)
    new, known = classify(prop, violations)
    for fid, (f, vs) in sorted(known.items()):
        print(f"KNOWN-FINDING: property={prop} {fid}: {f['what']} ({len(vs)} matching violation record(s), e.g. {vs[0].get('cli') or vs[0].get('history') or vs[0].get('probe')})")
    # one replay file per (class, kind) of new violations
    seen = {}
    n = 0
    for v in new:
        key = (v.get("engine"), v.get("class"), v.get("kind"))
        if key in seen:
            seen[key]["also"] = seen[key].get("also", 0) + 1
            continue
        seen[key] = v
    rc = 0
    for key, v in seen.items():
        n += 1
        if n <= 40:
            path = write_replay(prop, v.get("engine", "E"), n, v, v.get("replay_cmd", ""))
            print(f"VIOLATION property={prop} replay={path}")
            print(f"  {v.get('engine')} {v.get('class')}: {v.get('msg')}")
        rc = 1
    cov = dict(cov)
    cov["known_findings_matched"] = {fid: len(vs) for fid, (f, vs) in known.items()}
    cov["new_violation_classes"] = len(seen)
    cov["uninstrumented_atomics"] = scan_uninstrumented()
    write_evidence(prop, tier, seed, level, cov, assumptions, time.time() - t0, len(new))
    if rc == 0:
        print(f"OK property={prop} tier={tier} " + " ".join(f"{k}={cov[k]}" for k in ("states", "transitions", "traces_validated_against_impl", "evaluations", "distinct_nontrivial") if k in cov) + f" wall={time.time()-t0:.1f}s")
    return rc

def merge_cov(a, b):
    """merge coverage dicts of two engines (sums for the schema keys, samples concatenated)"""
    out = dict(a)
    for k, v in b.items():
        if k in ("states", "transitions", "traces_validated_against_impl", "evaluations", "distinct_nontrivial"):
            out[k] = out.get(k, 0) + v
        elif k == "samples":
            out[k] = out.get(k, []) + v
        elif k == "exhaustive":
            out[k] = out.get(k, True) and v
        else:
            out[k] = v
    return out

def run_check(prop, tier, seed):
    t0 = time.time()
    spec = CHECKS[prop]
    cov, viols, assumptions, rules = {}, [], [], []
    for eng in spec["engines"]:
        kw = {}
        if isinstance(eng, tuple):
            eng, kw = eng
        if eng == "E1":
            c, v = e1_part(prop, tier, seed, **kw)
            assumptions += E1_ASSUMPTIONS
            rules.append(RULES["E1"])
        elif eng == "E1pair":
            c, v = e1_pair_part(prop, tier, seed)
            assumptions += E1_ASSUMPTIONS
            rules.append("E1 adaptor-vs-underlying leg: every closed system of the C13P family (for_each / fold with chunk sizes 1-3, buffered, chunk and single pulls, skips, length queries, zero-sized chunk pulls; 2 threads complete, 3 threads preemption-bounded in the thorough tier) is explored on cloned()/copied() iterators and on their underlying reference-yielding iterators; per system the sets of outcomes and violation classes must be equal. distinct_nontrivial = systems compared.")
        elif eng == "E1diff":
            c, v = e1_diff_part(prop, tier, seed)
            assumptions += E1_ASSUMPTIONS
            rules.append("E1 two-profile leg: every configuration of the C17 family (length queries racing with overshooting pulls, skips, drains; 2 threads, complete exploration) is explored by an optimized E1 binary and by one built with debug assertions + overflow checks; outcome sets and violation classes are compared per configuration.")
        elif eng == "E3":
            import e3
            c, v = e3.part(prop, tier, seed, **kw)
            assumptions += e3.ASSUMPTIONS
            rules.append(e3.RULE)
        elif eng == "E4":
            import e4
            c, v = e4.part(prop, tier, seed)
            assumptions += e4.ASSUMPTIONS
            rules.append(e4.RULE)
        elif eng == "E2":
            import e2
            c, v = e2.part(prop, tier, seed)
            assumptions += e2.ASSUMPTIONS
            rules.append(e2.RULE)
        else:
            raise MachineryError(f"unknown engine {eng}")
        cov = merge_cov(cov, c)
        viols += v
    cov["rule"] = " || ".join(rules)
    return finish(prop, tier, seed, spec.get("level", "model_checking"), cov, viols, assumptions, t0)

CHECKS = {
    "C01": {"engines": ["E1"]},
    "C02": {"engines": ["E1", "E3", ("E3", {"suite": "C02L"})]},
    "C03": {"engines": ["E3", "E1"]},
    "C04": {"engines": ["E1", "E3"]},
    "C05": {"engines": ["E3", "E1"]},
    "C06": {"engines": ["E3", "E1"]},
    "C07": {"engines": ["E1"]},
    "C08": {"engines": ["E3", "E1"]},
    "C09": {"engines": ["E1"]},
    "C10": {"engines": [("E3", {"extra_classes": ("wrong-chunk-len", "empty-chunk", "wrong-element", "early-end", "len-mismatch", "foreach-count", "foreach-element", "revived", "after-skip", "wrong-begin")}), "E1"]},
    "C11": {"engines": ["E3", "E1"]},
    "C12": {"engines": ["E1", "E3"]},
    "C13": {"engines": ["E3", "E1", "E1pair"]},
    "C14": {"engines": ["E4", "E3"], "level": "exploration"},
    "C15": {"engines": ["E3", "E1"]},
    "C16": {"engines": [("E3", {"suite": "C16", "profiles": ("pdbg", "prel"), "all_tags": True}), ("E3", {"suite": "C16R", "profiles": ("pdbg", "prel"), "all_tags": True}), "E1"], "level": "exploration"},
    "C17": {"engines": [("E3", {"profiles": ("pdbg", "prel"), "diff": True}), "E1diff"], "level": "exploration"},
    "C18": {"engines": ["E1", ("E1", {"profile": "hdbg"})], "level": "fault_enumeration"},
    "C19": {"engines": ["E3", "E1"]},
}
