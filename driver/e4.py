"""E4: exhaustive family of minimal client programs, compiled against the current tree (C14, type-level half).

Every rejecting program has a twin that differs only in the offending ingredient and must compile.
Reference rule: a program must be REJECTED iff it lets a value that is not thread-safe cross threads
(element type, wrapped iterator) or lets a borrow outlive its owner / overlap a mutable borrow.
"""
import os, re, json, time, subprocess, glob, hashlib
from concurrent.futures import ThreadPoolExecutor
from common import *

ASSUMPTIONS = [
    "the verdict on one program is rustc's type and borrow checker (stable toolchain in the sandbox)",
    "the family of programs is finite: every constructor / adaptor x element thread-safety class x wrapped-iterator thread-safety x way of crossing threads, plus the lifetime scenarios listed in driver/e4.py",
]
RULE = ("E4: full product of constructor/adaptor x element type (Send+Sync, !Send+!Sync, Send+!Sync, !Send+Sync) x wrapped iterator (Send, !Send) x use (shared in thread::scope, moved into thread::spawn), "
        "plus the lifetime scenarios; each rejecting program has an accepting twin; expected verdict from the reference rule, compared with the compiler's verdict and error class.")

PRELUDE = """#![allow(unused, dead_code)]
use orx_concurrent_iter::*;
use std::rc::Rc;
use std::cell::Cell;
use std::marker::PhantomData;

#[derive(Clone, Copy, Debug)]
struct Good(u64);
/// neither Send nor Sync
#[derive(Clone, Debug)]
struct RcLike(Rc<u64>);
/// Send but not Sync
#[derive(Clone, Debug)]
struct CellLike(Cell<u64>);
/// Sync but not Send
#[derive(Clone, Copy, Debug)]
struct NoSend(u64, PhantomData<*const ()>);
unsafe impl Sync for NoSend {}

fn mk_good() -> Good { Good(1) }
fn mk_rclike() -> RcLike { RcLike(Rc::new(1)) }
fn mk_celllike() -> CellLike { CellLike(Cell::new(1)) }
fn mk_nosend() -> NoSend { NoSend(1, PhantomData) }
fn sink<T>(_: T) {}
"""

ELEMS = {
    # name: (type, maker, is_send, is_sync, is_copy)
    "good": ("Good", "mk_good()", True, True, True),
    "rclike": ("RcLike", "mk_rclike()", False, False, False),
    "celllike": ("CellLike", "mk_celllike()", True, False, False),
    "nosend": ("NoSend", "mk_nosend()", False, True, True),
}

# constructor: (setup code producing `it`, kind) ; kind: "ref" = delivers &T from a shared collection,
# "own" = moves T out to the pulling threads, "clone" = clones T on the pulling thread (reads &T there)
CONSTRUCTORS = {
    "slice_into": ("let v: Vec<{T}> = vec![{M}, {M}]; let s: &'static [{T}] = Vec::leak(v); let it = s.into_con_iter();", "ref"),
    "slice_new": ("let v: Vec<{T}> = vec![{M}, {M}]; let s: &'static [{T}] = Vec::leak(v); let it = ConIterOfSlice::new(s);", "ref"),
    "slice_from": ("let v: Vec<{T}> = vec![{M}, {M}]; let s: &'static [{T}] = Vec::leak(v); let it = ConIterOfSlice::from(s);", "ref"),
    "vec_con_iter": ("let v: &'static Vec<{T}> = Box::leak(Box::new(vec![{M}, {M}])); let it = v.con_iter();", "ref"),
    "array_con_iter": ("let v: &'static [{T}; 2] = Box::leak(Box::new([{M}, {M}])); let it = v.con_iter();", "ref"),
    "vec_into": ("let v: Vec<{T}> = vec![{M}, {M}]; let it = v.into_con_iter();", "own"),
    "vec_new": ("let v: Vec<{T}> = vec![{M}, {M}]; let it = ConIterOfVec::new(v);", "own"),
    "vec_from": ("let v: Vec<{T}> = vec![{M}, {M}]; let it = ConIterOfVec::from(v);", "own"),
    "array_into": ("let v: [{T}; 2] = [{M}, {M}]; let it = v.into_con_iter();", "own"),
    "array_new": ("let v: [{T}; 2] = [{M}, {M}]; let it = ConIterOfArray::new(v);", "own"),
    "array_from": ("let v: [{T}; 2] = [{M}, {M}]; let it = ConIterOfArray::from(v);", "own"),
    "iter_into": ("let v: Vec<{T}> = vec![{M}, {M}]; let it = v.into_iter().into_con_iter();", "own"),
    "iter_new": ("let v: Vec<{T}> = vec![{M}, {M}]; let it = ConIterOfIter::new(v.into_iter());", "own"),
    "iter_from": ("let v: Vec<{T}> = vec![{M}, {M}]; let it = ConIterOfIter::from(v.into_iter());", "own"),
    "cloned_slice": ("let v: Vec<{T}> = vec![{M}, {M}]; let s: &'static [{T}] = Vec::leak(v); let it = s.into_con_iter().cloned();", "clone"),
    "cloned_vec": ("let v: &'static Vec<{T}> = Box::leak(Box::new(vec![{M}, {M}])); let it = v.con_iter().cloned();", "clone"),
    "cloned_iter": ("let v: &'static Vec<{T}> = Box::leak(Box::new(vec![{M}, {M}])); let it = v.iter().into_con_iter().cloned();", "clone"),
    "copied_slice": ("let v: Vec<{T}> = vec![{M}, {M}]; let s: &'static [{T}] = Vec::leak(v); let it = s.into_con_iter().copied();", "copy"),
    "copied_iter": ("let v: &'static Vec<{T}> = Box::leak(Box::new(vec![{M}, {M}])); let it = v.iter().into_con_iter().copied();", "copy"),
}

USES = {
    # pulls from two threads
    "scope": "std::thread::scope(|s| { s.spawn(|| { while let Some(x) = it.next() { sink(x); } }); s.spawn(|| { if let Some(c) = it.next_chunk(2) { for x in c.values { sink(x); } } }); });",
    "spawn": "let h = std::thread::spawn(move || { while let Some(x) = it.next() { sink(x); } }); h.join().unwrap();",
}

# moving the iterator itself to another thread (its destructor then destroys the remaining elements there)
USES["spawn_drop"] = "let h = std::thread::spawn(move || { let moved = it; drop(moved); }); h.join().unwrap();"

BOUND_ERRORS = {"E0277", "E0599", "E0308", "E0282", "E0283"}
BORROW_ERRORS = {"E0499", "E0502", "E0505", "E0597", "E0716", "E0506", "E0515", "E0521", "E0373", "E0503"}

def must_reject(kind, send, sync):
    """reference typing rule for thread-safety: what crosses threads and how"""
    if kind == "ref":
        return not sync  # &T reaches other threads: T must be Sync
    if kind == "own":
        return not send  # T values move to other threads
    if kind in ("clone", "copy"):
        return not sync or not send  # &T is read on other threads and the clones are created / may move there
    return False

def bound_probes():
    out = []
    for cn, (ctor, kind) in CONSTRUCTORS.items():
        for en, (ty, mk, send, sync, copy) in ELEMS.items():
            if kind == "copy" and not copy:
                continue
            for un, use in USES.items():
                src = PRELUDE + "fn main() {\n    " + ctor.replace("{T}", ty).replace("{M}", mk) + "\n    " + use + "\n}\n"
                rej = must_reject(kind, send, sync)
                if en == "nosend" and kind in ("clone", "copy"):
                    # !Send + Sync elements: clones are created by the pulling thread and never leave it: accepting is not unsound
                    expect = "either"
                elif rej:
                    expect = "reject"
                elif en == "good":
                    expect = "accept"
                else:
                    # not required by the property: the crate may be stricter than necessary
                    expect = "either"
                out.append({"name": f"bound.{cn}.{en}.{un}", "src": src, "expect": expect, "errors": BOUND_ERRORS, "twin": f"bound.{cn}.good.{un}", "group": "element-thread-safety", "ctor": cn, "elem": en, "use": un})
    # wrapped iterator thread-safety (elements are fine)
    for un, use in USES.items():
        for iters, send in (("let rc = Rc::new(5u64); let it = (0..4u64).map(move |x| x + *rc).into_con_iter();", False), ("let k = 5u64; let it = (0..4u64).map(move |x| x + k).into_con_iter();", True),
                            ("let rc = Rc::new(5u64); let it = ConIterOfIter::new((0..4u64).map(move |x| x + *rc));", False), ("let k = 5u64; let it = ConIterOfIter::new((0..4u64).map(move |x| x + k));", True)):
            tag = "into" if "into_con_iter" in iters else "new"
            nm = f"wrapped.{tag}.{'send' if send else 'nonsend'}.{un}"
            out.append({"name": nm, "src": PRELUDE + "fn main() {\n    " + iters + "\n    " + use + "\n}\n", "expect": "accept" if send else "reject", "errors": BOUND_ERRORS, "twin": f"wrapped.{tag}.send.{un}", "group": "wrapped-iterator-thread-safety", "ctor": f"iter_{tag}", "elem": "good", "use": un})
        # cloned / copied over a wrapped iterator of references that is not Send
        for ad in ("cloned", "copied"):
            for send in (False, True):
                it = ("let rc = Rc::new(0usize); let v: &'static Vec<Good> = Box::leak(Box::new(vec![mk_good(), mk_good()])); let it = v.iter().skip(*rc).into_con_iter()." + ad + "();") if not send else \
                     ("let k = 0usize; let v: &'static Vec<Good> = Box::leak(Box::new(vec![mk_good(), mk_good()])); let it = v.iter().skip(k).into_con_iter()." + ad + "();")
                if not send:
                    it = it.replace("v.iter().skip(*rc)", "v.iter().filter(move |_| *rc == 0)")
                else:
                    it = it.replace("v.iter().skip(k)", "v.iter().filter(move |_| k == 0)")
                nm = f"wrapped.{ad}.{'send' if send else 'nonsend'}.{un}"
                out.append({"name": nm, "src": PRELUDE + "fn main() {\n    " + it + "\n    " + use + "\n}\n", "expect": "accept" if send else "reject", "errors": BOUND_ERRORS, "twin": f"wrapped.{ad}.send.{un}", "group": "wrapped-iterator-thread-safety", "ctor": f"iter_{ad}", "elem": "good", "use": un})
    return out

LIFETIME = [
    # name, bad body, good body
    ("ref_outlives_vec", "let r; { let v = vec![mk_good(), mk_good()]; let it = v.con_iter(); r = it.next(); } sink(r);",
                         "let v = vec![mk_good(), mk_good()]; let r; { let it = v.con_iter(); r = it.next(); } sink(r);"),
    ("ref_outlives_array", "let r; { let v = [mk_good(), mk_good()]; let it = v.con_iter(); r = it.next_id_and_value(); } sink(r);",
                           "let v = [mk_good(), mk_good()]; let r; { let it = v.con_iter(); r = it.next_id_and_value(); } sink(r);"),
    ("ref_outlives_slice", "let r; { let v = vec![mk_good(), mk_good()]; let it = v.as_slice().into_con_iter(); r = it.next(); } sink(r);",
                           "let v = vec![mk_good(), mk_good()]; let r; { let it = v.as_slice().into_con_iter(); r = it.next(); } sink(r);"),
    ("iter_outlives_vec", "let v = vec![mk_good(), mk_good()]; let it = v.con_iter(); drop(v); sink(it.next());",
                          "let v = vec![mk_good(), mk_good()]; let it = v.con_iter(); sink(it.next()); drop(v);"),
    ("vec_mutated_while_iterated", "let mut v = vec![mk_good(), mk_good()]; let it = v.con_iter(); v.push(mk_good()); sink(it.next());",
                                   "let mut v = vec![mk_good(), mk_good()]; { let it = v.con_iter(); sink(it.next()); } v.push(mk_good());"),
    ("chunk_outlives_iter_vec", "let c; { let it = vec![mk_good(), mk_good()].into_con_iter(); c = it.next_chunk(2); } sink(c.map(|c| c.values.count()));",
                                "let it = vec![mk_good(), mk_good()].into_con_iter(); let c; { c = it.next_chunk(2); } sink(c.map(|c| c.values.count()));"),
    ("chunk_outlives_iter_iter", "let c; { let it = vec![mk_good(), mk_good()].into_iter().into_con_iter(); c = it.next_chunk(2); } sink(c.map(|c| c.values.count()));",
                                 "let it = vec![mk_good(), mk_good()].into_iter().into_con_iter(); let c; { c = it.next_chunk(2); } sink(c.map(|c| c.values.count()));"),
    ("chunk_alive_across_into_seq", "let it = vec![mk_good(), mk_good()].into_con_iter(); let c = it.next_chunk(1); let s = it.into_seq_iter(); sink(c.map(|c| c.values.count())); sink(s);",
                                    "let it = vec![mk_good(), mk_good()].into_con_iter(); let c = it.next_chunk(1); sink(c.map(|c| c.values.count())); let s = it.into_seq_iter(); sink(s);"),
    ("buffered_chunk_across_next_vec", "let it = vec![mk_good(); 4].into_con_iter(); let mut b = it.buffered_iter(2); let c1 = b.next(); let c2 = b.next(); sink(c1.map(|c| c.values.count())); sink(c2.map(|c| c.values.count()));",
                                       "let it = vec![mk_good(); 4].into_con_iter(); let mut b = it.buffered_iter(2); let c1 = b.next(); sink(c1.map(|c| c.values.count())); let c2 = b.next(); sink(c2.map(|c| c.values.count()));"),
    ("buffered_chunk_across_next_iter", "let it = vec![mk_good(); 4].into_iter().into_con_iter(); let mut b = it.buffered_iter(2); let c1 = b.next(); let c2 = b.next(); sink(c1.map(|c| c.values.count())); sink(c2.map(|c| c.values.count()));",
                                        "let it = vec![mk_good(); 4].into_iter().into_con_iter(); let mut b = it.buffered_iter(2); let c1 = b.next(); sink(c1.map(|c| c.values.count())); let c2 = b.next(); sink(c2.map(|c| c.values.count()));"),
    ("buffered_chunk_across_next_slice", "let v = vec![mk_good(); 4]; let it = v.con_iter(); let mut b = it.buffered_iter(2); let c1 = b.next(); let c2 = b.next(); sink(c1.map(|c| c.values.count())); sink(c2.map(|c| c.values.count()));",
                                         "let v = vec![mk_good(); 4]; let it = v.con_iter(); let mut b = it.buffered_iter(2); let c1 = b.next(); sink(c1.map(|c| c.values.count())); let c2 = b.next(); sink(c2.map(|c| c.values.count()));"),
    ("buffered_chunk_across_next_cloned", "let v = vec![mk_good(); 4]; let it = v.con_iter().cloned(); let mut b = it.buffered_iter(2); let c1 = b.next(); let c2 = b.next(); sink(c1.map(|c| c.values.count())); sink(c2.map(|c| c.values.count()));",
                                          "let v = vec![mk_good(); 4]; let it = v.con_iter().cloned(); let mut b = it.buffered_iter(2); let c1 = b.next(); sink(c1.map(|c| c.values.count())); let c2 = b.next(); sink(c2.map(|c| c.values.count()));"),
    ("buffered_outlives_iter", "let mut b; { let it = vec![mk_good(); 4].into_con_iter(); b = it.buffered_iter(2); } sink(b.next().map(|c| c.values.count()));",
                               "let it = vec![mk_good(); 4].into_con_iter(); let mut b; { b = it.buffered_iter(2); } sink(b.next().map(|c| c.values.count()));"),
    ("buffered_outlives_iter_iter", "let mut b; { let it = vec![mk_good(); 4].into_iter().into_con_iter(); b = it.buffered_iter(2); } sink(b.next().map(|c| c.values.count()));",
                                    "let it = vec![mk_good(); 4].into_iter().into_con_iter(); let mut b; { b = it.buffered_iter(2); } sink(b.next().map(|c| c.values.count()));"),
    ("seq_iter_outlives_vec", "let s; { let v = vec![mk_good(), mk_good()]; s = v.con_iter().into_seq_iter(); } sink(s.count());",
                              "let v = vec![mk_good(), mk_good()]; let s; { s = v.con_iter().into_seq_iter(); } sink(s.count());"),
    ("cloned_seq_iter_outlives_vec", "let s; { let v = vec![mk_good(), mk_good()]; s = v.con_iter().cloned().into_seq_iter(); } sink(s.count());",
                                     "let v = vec![mk_good(), mk_good()]; let s; { s = v.con_iter().cloned().into_seq_iter(); } sink(s.count());"),
    ("values_outlive_iter", "let mut vals; { let it = vec![mk_good(), mk_good()].into_con_iter(); vals = it.values(); } sink(vals.next());",
                            "let it = vec![mk_good(), mk_good()].into_con_iter(); let mut vals; { vals = it.values(); } sink(vals.next());"),
    ("ids_and_values_outlive_iter", "let mut vals; { let it = vec![mk_good(), mk_good()].into_con_iter(); vals = it.ids_and_values(); } sink(vals.next());",
                                    "let it = vec![mk_good(), mk_good()].into_con_iter(); let mut vals; { vals = it.ids_and_values(); } sink(vals.next());"),
    ("cloned_outlives_slice", "let it; { let v = vec![mk_good(), mk_good()]; it = v.con_iter().cloned(); } sink(it.next());",
                              "let v = vec![mk_good(), mk_good()]; let it; { it = v.con_iter().cloned(); } sink(it.next());"),
    ("copied_outlives_slice", "let it; { let v = vec![mk_good(), mk_good()]; it = v.con_iter().copied(); } sink(it.next());",
                              "let v = vec![mk_good(), mk_good()]; let it; { it = v.con_iter().copied(); } sink(it.next());"),
    ("scoped_thread_ref_escapes", "let r; { let v = vec![mk_good(), mk_good()]; let it = v.con_iter(); r = std::thread::scope(|s| s.spawn(|| it.next()).join().unwrap()); } sink(r);",
                                  "let v = vec![mk_good(), mk_good()]; let r; { let it = v.con_iter(); r = std::thread::scope(|s| s.spawn(|| it.next()).join().unwrap()); } sink(r);"),
    ("spawn_borrows_local_vec", "let v = vec![mk_good(), mk_good()]; let it = v.con_iter(); let h = std::thread::spawn(move || it.next().map(|g| g.0)); sink(h.join());",
                                "let v: &'static Vec<Good> = Box::leak(Box::new(vec![mk_good(), mk_good()])); let it = v.con_iter(); let h = std::thread::spawn(move || it.next().map(|g| g.0)); sink(h.join());"),
    ("consumed_vec_used_after", "let v = vec![mk_good(), mk_good()]; let it = v.into_con_iter(); sink(v.len()); sink(it.next());",
                                "let v = vec![mk_good(), mk_good()]; sink(v.len()); let it = v.into_con_iter(); sink(it.next());"),
    ("iter_used_after_into_seq", "let it = vec![mk_good(), mk_good()].into_con_iter(); let s = it.into_seq_iter(); sink(it.next()); sink(s);",
                                 "let it = vec![mk_good(), mk_good()].into_con_iter(); sink(it.next()); let s = it.into_seq_iter(); sink(s);"),
]

CUSTOM_ATOMIC_ITER = """
use orx_concurrent_iter::iter::atomic_iter::AtomicIter;
/// a user-defined atomic iterator over a slice; `STATE` is extra state touched by every pull
struct Mine<'a> { slice: &'a [Good], counter: AtomicCounter, state: STATE }
impl<'a> AtomicIter<&'a Good> for Mine<'a> {
    fn counter(&self) -> &AtomicCounter { &self.counter }
    fn progress_and_get_begin_idx(&self, n: usize) -> Option<usize> {
        let b = self.counter.fetch_and_add(n);
        if b < self.slice.len() { Some(b) } else { None }
    }
    fn get(&self, i: usize) -> Option<&'a Good> { TOUCH; self.slice.get(i) }
    fn fetch_n(&self, n: usize) -> Option<NextChunk<&'a Good, impl ExactSizeIterator<Item = &'a Good>>> {
        let b = self.progress_and_get_begin_idx(n)?;
        let e = (b + n).min(self.slice.len());
        Some(NextChunk { begin_idx: b, values: self.slice[b..e].iter() })
    }
    fn early_exit(&self) { self.counter.store(self.slice.len()) }
}
"""

def custom_probes():
    """the public low-level trait: adaptors over a user-defined atomic iterator that is not thread-safe"""
    out = []
    variants = {"sync": ("std::sync::atomic::AtomicUsize", "self.state.fetch_add(1, std::sync::atomic::Ordering::Relaxed)", "std::sync::atomic::AtomicUsize::new(0)", "accept"),
                "nonsync": ("Cell<usize>", "self.state.set(self.state.get() + 1)", "Cell::new(0)", "reject")}
    for vn, (ty, touch, init, expect) in variants.items():
        for ad in ("cloned", "copied"):
            for un, use in (("scope", "std::thread::scope(|s| { s.spawn(|| { while let Some(x) = it.fetch_one() { sink(x.value); } }); s.spawn(|| { while let Some(x) = it.fetch_one() { sink(x.value); } }); });"),
                            ("spawn", "let h = std::thread::spawn(move || { while let Some(x) = it.fetch_one() { sink(x.value); } }); h.join().unwrap();")):
                body = CUSTOM_ATOMIC_ITER.replace("STATE", ty).replace("TOUCH", touch)
                main = f"let v: &'static Vec<Good> = Box::leak(Box::new(vec![mk_good(), mk_good(), mk_good()])); let it = Mine {{ slice: v.as_slice(), counter: AtomicCounter::new(), state: {init} }}.{ad}();\n    {use}"
                out.append({"name": f"custom.{ad}.{vn}.{un}", "src": PRELUDE + body + "fn main() {\n    " + main + "\n}\n", "expect": expect, "errors": BOUND_ERRORS, "twin": f"custom.{ad}.sync.{un}",
                            "group": "user-defined-atomic-iterator", "ctor": f"custom_{ad}", "elem": "good", "use": un})
    return out

def lifetime_probes():
    out = []
    for name, bad, good in LIFETIME:
        out.append({"name": f"life.{name}.bad", "src": PRELUDE + "fn main() {\n    " + bad + "\n}\n", "expect": "reject", "errors": BORROW_ERRORS | {"E0382"}, "twin": f"life.{name}.ok", "group": "borrow-lifetimes"})
        out.append({"name": f"life.{name}.ok", "src": PRELUDE + "fn main() {\n    " + good + "\n}\n", "expect": "accept", "errors": set(), "twin": None, "group": "borrow-lifetimes"})
    return out

def all_probes():
    return bound_probes() + custom_probes() + lifetime_probes()

def build_rlib():
    env = cargo_env({"CARGO_TARGET_DIR": os.path.join(TARGET, "plain")})
    env.pop("RUSTFLAGS", None)
    run_build(["cargo", "build", "--offline", "--profile", "prel", "-p", "orx-concurrent-iter"], env, "subject rlib for E4")
    deps = os.path.join(TARGET, "plain", "prel", "deps")
    rl = sorted(glob.glob(os.path.join(deps, "liborx_concurrent_iter-*.rlib")), key=os.path.getmtime)
    if not rl:
        raise MachineryError("subject rlib not found")
    return rl[-1], deps

def compile_probe(p, rlib, deps, workdir):
    fname = p["name"].replace(".", "_")
    path = os.path.join(workdir, fname + ".rs")
    open(path, "w").write(p["src"])
    out = os.path.join(workdir, fname + ".rmeta")
    r = subprocess.run(["rustc", "--edition", "2021", "--crate-type", "bin", "--emit=metadata", "-L", f"dependency={deps}", "--extern", f"orx_concurrent_iter={rlib}", "-o", out, path],
                       stdout=subprocess.PIPE, stderr=subprocess.PIPE, text=True)
    codes = set(re.findall(r"error\[(E\d+)\]", r.stderr))
    ok = r.returncode == 0
    if not ok and not codes and "error" not in r.stderr:
        raise MachineryError(f"rustc failed strangely on {p['name']}: {r.stderr[-500:]}")
    first = next((l for l in r.stderr.splitlines() if l.startswith("error")), "")
    for f in (out,):
        if os.path.exists(f):
            os.remove(f)
    return ok, codes, first

def part(prop, tier, seed):
    t0 = time.time()
    rlib, deps = build_rlib()
    workdir = os.path.join(TARGET, "run", "probes")
    os.makedirs(workdir, exist_ok=True)
    probes = all_probes()
    with ThreadPoolExecutor(max_workers=NCPU) as ex:
        results = list(ex.map(lambda p: compile_probe(p, rlib, deps, workdir), probes))
    viols, verdicts = [], {}
    n_reject = n_accept = n_either = 0
    for p, (ok, codes, first) in zip(probes, results):
        verdicts[p["name"]] = ok
    for p, (ok, codes, first) in zip(probes, results):
        exp = p["expect"]
        replay = f"cd {VERIF} && python3 driver/e4.py show {p['name']}"
        if exp == "either":
            n_either += 1
            continue
        if exp == "accept":
            n_accept += 1
            if not ok:
                viols.append({"prop": prop, "engine": "E4", "class": "valid-program-rejected", "probe": p["name"], "kind": p.get("ctor", p["group"]), "msg": f"probe {p['name']} (valid twin) must compile but rustc says: {first} {sorted(codes)}", "replay_cmd": replay, "count": 1})
        else:
            n_reject += 1
            if ok:
                viols.append({"prop": prop, "engine": "E4", "class": "unsound-program-accepted", "probe": p["name"], "kind": p.get("ctor", p["group"]), "msg": f"probe {p['name']} must be rejected ({p['group']}) but it compiles", "replay_cmd": replay, "count": 1})
            elif not (codes & p["errors"]):
                viols.append({"prop": prop, "engine": "E4", "class": "rejected-for-another-reason", "probe": p["name"], "kind": p.get("ctor", p["group"]), "msg": f"probe {p['name']} is rejected with {sorted(codes)} ({first}), expected one of {sorted(p['errors'])}", "replay_cmd": replay, "count": 1})
            elif p.get("twin") and not verdicts.get(p["twin"], False):
                viols.append({"prop": prop, "engine": "E4", "class": "twin-does-not-compile", "probe": p["name"], "kind": p.get("ctor", p["group"]), "msg": f"the accepting twin {p['twin']} of {p['name']} does not compile, so the rejection is not pinned on the offending ingredient", "replay_cmd": replay, "count": 1})
    groups = {}
    for p in probes:
        groups[p["group"]] = groups.get(p["group"], 0) + 1
    cov = {
        "engine_E4": {"programs": len(probes), "must_reject": n_reject, "must_accept": n_accept, "unconstrained_by_the_property": n_either, "by_group": groups, "compile_s": round(time.time() - t0, 1)},
        "evaluations": len(probes),
        "distinct_nontrivial": n_reject + n_accept,
        "states": len(probes),
        "transitions": len(probes),
        "traces_validated_against_impl": len(probes),
        "samples": [{"probe": probes[0]["name"], "expect": probes[0]["expect"], "main": probes[0]["src"].split("fn main()")[1][:300]},
                    {"probe": probes[-2]["name"], "expect": probes[-2]["expect"], "main": probes[-2]["src"].split("fn main()")[1][:300]}],
        "exhaustive": True,
    }
    return cov, viols

if __name__ == "__main__":
    import sys
    if len(sys.argv) >= 3 and sys.argv[1] == "show":
        p = next((p for p in all_probes() if p["name"] == sys.argv[2]), None)
        if p is None:
            print("unknown probe")
            sys.exit(2)
        rlib, deps = build_rlib()
        workdir = os.path.join(TARGET, "run", "probes")
        os.makedirs(workdir, exist_ok=True)
        ok, codes, first = compile_probe(p, rlib, deps, workdir)
        print(p["src"])
        print(f"expected: {p['expect']}  compiler: {'accepts' if ok else 'rejects ' + str(sorted(codes))} {first}")
        bad = (p["expect"] == "reject" and ok) or (p["expect"] == "accept" and not ok)
        sys.exit(1 if bad else 0)
