#!/bin/bash
# usage: run_seeds.sh [ids...]  — runs, for each seeded change, the check of the property it breaks; appends to scratch/seed_results.txt
cd /verif
ids="$@"; [ -z "$ids" ] && ids=$(ls seeded)
for id in $ids; do
  prop=$(python3 -c "import json;print(json.load(open('/verif/seeded/$id/meta.json'))['breaks_property'])")
  tools/try_mutant.sh seeded/$id/patch.diff $prop 2>&1 | tee -a scratch/seed_results.txt
done
