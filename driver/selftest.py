"""./check selftest: engine self-test (mode agreement, determinism) + replay determinism of one known schedule"""
import subprocess, sys
from common import *

def run(tier, seed):
    binary = build_conc()
    procs = [subprocess.Popen([binary, "selftest", "--shard", f"{i}/{NCPU}"], stdout=subprocess.PIPE, stderr=subprocess.STDOUT, text=True) for i in range(NCPU)]
    rc = 0
    for p in procs:
        out = p.communicate()[0]
        print(out.strip())
        if p.returncode != 0:
            rc = 2
    print("SELFTEST", "ok" if rc == 0 else "FAILED")
    return rc
