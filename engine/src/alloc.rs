//! Counting allocator for leak accounting (C15). Install in a binary with
//! `#[global_allocator] static A: orx_verif_shim::alloc::Counting = orx_verif_shim::alloc::Counting;`
//!
//! Blocks allocated while the *tracking flag* is on are entered into a fixed-size table (never allocates);
//! a deallocation removes the block whatever the flag says. `live()` reports what is still in the table.
use std::alloc::{GlobalAlloc, Layout, System};
use std::sync::atomic::{AtomicBool, AtomicUsize, Ordering::Relaxed};

pub struct Counting;

const SLOTS: usize = 1 << 14;
static TRACK: AtomicBool = AtomicBool::new(false);
static KEYS: [AtomicUsize; SLOTS] = [const { AtomicUsize::new(0) }; SLOTS];
static SIZES: [AtomicUsize; SLOTS] = [const { AtomicUsize::new(0) }; SLOTS];
static LIVE_BLOCKS: AtomicUsize = AtomicUsize::new(0);
static LIVE_BYTES: AtomicUsize = AtomicUsize::new(0);
static OVERFLOW: AtomicBool = AtomicBool::new(false);
static TOTAL_ALLOCS: AtomicUsize = AtomicUsize::new(0);
// journal of slots written since the last reset (so that reset() touches only those)
const JN: usize = 512;
static JOURNAL: [AtomicUsize; JN] = [const { AtomicUsize::new(0) }; JN];
static JLEN: AtomicUsize = AtomicUsize::new(0);
const TOMB: usize = 1;

#[inline]
fn slot(p: usize) -> usize {
    (p >> 4).wrapping_mul(0x9E37_79B9_7F4A_7C15) >> (64 - 14)
}

fn insert(p: usize, size: usize) {
    let mut i = slot(p);
    for _ in 0..SLOTS {
        let k = KEYS[i].load(Relaxed);
        if k == 0 || k == TOMB {
            KEYS[i].store(p, Relaxed);
            SIZES[i].store(size, Relaxed);
            if k == 0 {
                let j = JLEN.fetch_add(1, Relaxed);
                if j < JN {
                    JOURNAL[j].store(i, Relaxed);
                }
            }
            LIVE_BLOCKS.fetch_add(1, Relaxed);
            LIVE_BYTES.fetch_add(size, Relaxed);
            return;
        }
        i = (i + 1) & (SLOTS - 1);
    }
    OVERFLOW.store(true, Relaxed);
}

fn remove(p: usize) {
    if LIVE_BLOCKS.load(Relaxed) == 0 {
        return;
    }
    let mut i = slot(p);
    for _ in 0..SLOTS {
        let k = KEYS[i].load(Relaxed);
        if k == 0 {
            return;
        }
        if k == p {
            KEYS[i].store(TOMB, Relaxed);
            LIVE_BLOCKS.fetch_sub(1, Relaxed);
            LIVE_BYTES.fetch_sub(SIZES[i].load(Relaxed), Relaxed);
            return;
        }
        i = (i + 1) & (SLOTS - 1);
    }
}

unsafe impl GlobalAlloc for Counting {
    unsafe fn alloc(&self, l: Layout) -> *mut u8 {
        let p = System.alloc(l);
        if TRACK.load(Relaxed) && !p.is_null() {
            TOTAL_ALLOCS.fetch_add(1, Relaxed);
            insert(p as usize, l.size());
        }
        p
    }
    unsafe fn dealloc(&self, p: *mut u8, l: Layout) {
        remove(p as usize);
        System.dealloc(p, l)
    }
    unsafe fn realloc(&self, p: *mut u8, l: Layout, new_size: usize) -> *mut u8 {
        let tracked_before = {
            let b = LIVE_BLOCKS.load(Relaxed);
            remove(p as usize);
            LIVE_BLOCKS.load(Relaxed) != b
        };
        let q = System.realloc(p, l, new_size);
        if q.is_null() {
            if tracked_before {
                insert(p as usize, l.size());
            }
        } else if tracked_before || TRACK.load(Relaxed) {
            insert(q as usize, new_size);
        }
        q
    }
}

/// Turn tracking of new allocations on/off; returns the previous value.
pub fn track(on: bool) -> bool {
    TRACK.swap(on, Relaxed)
}
pub fn tracking() -> bool {
    TRACK.load(Relaxed)
}
/// (live blocks, live bytes) among tracked allocations.
pub fn live() -> (usize, usize) {
    (LIVE_BLOCKS.load(Relaxed), LIVE_BYTES.load(Relaxed))
}
pub fn total_tracked_allocs() -> usize {
    TOTAL_ALLOCS.load(Relaxed)
}
pub fn overflowed() -> bool {
    OVERFLOW.load(Relaxed)
}
/// Forget everything (start of a new measurement window).
pub fn reset() {
    let j = JLEN.load(Relaxed);
    if j <= JN {
        for t in 0..j {
            KEYS[JOURNAL[t].load(Relaxed)].store(0, Relaxed);
        }
    } else {
        for i in 0..SLOTS {
            KEYS[i].store(0, Relaxed);
        }
    }
    JLEN.store(0, Relaxed);
    LIVE_BLOCKS.store(0, Relaxed);
    LIVE_BYTES.store(0, Relaxed);
    OVERFLOW.store(false, Relaxed);
}

/// RAII: allocation tracking is off while the guard lives
pub struct NoTrack(bool);
impl NoTrack {
    #[inline]
    pub fn new() -> Self {
        NoTrack(track(false))
    }
}
impl Default for NoTrack {
    fn default() -> Self {
        Self::new()
    }
}
impl Drop for NoTrack {
    #[inline]
    fn drop(&mut self) {
        track(self.0);
    }
}
