#!/bin/bash
# Runs the repository's pinned baseline (guard OFF) and compares with /root/.vp/BASELINE.json stable_pass.
# exit 0 iff every stable_pass test passed.
set -u
mkdir -p /verif/target
cd /repo
export CARGO_NET_OFFLINE=true
export CARGO_TARGET_DIR=${BASELINE_TARGET_DIR:-/repo/target}
cargo nextest run --workspace --no-fail-fast --tool-config-file pb:/w/lib/nextest.toml --profile pb --test-threads 8 --offline > /verif/target/baseline.log 2>&1
J=$CARGO_TARGET_DIR/nextest/pb/junit.xml
python3 - "$J" <<'PY'
import sys,json,xml.etree.ElementTree as ET
b=json.load(open('/root/.vp/BASELINE.json'))
want=set(b['stable_pass'])
t=ET.parse(sys.argv[1]).getroot()
passed=set();failed=set()
for ts in t.iter('testsuite'):
    for tc in ts.iter('testcase'):
        name=tc.get('classname','')+'::'+tc.get('name','')
        bad=any(c.tag in('failure','error') for c in tc)
        (failed if bad else passed).add(name)
miss=[w for w in want if w not in passed]
print(f"passed={len(passed)} failed={len(failed)} baseline={len(want)} baseline_missing={len(miss)}")
for m in miss[:20]: print("  MISSING",m)
sys.exit(1 if miss else 0)
PY
