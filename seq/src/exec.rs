//! Lock-step execution of one operation history on the real iterator and on the reference cursor.
use crate::elem::*;
use crate::hist::*;
use orx_concurrent_iter::*;
use orx_verif_shim::alloc;

#[derive(Clone, Copy, Debug, PartialEq, Eq)]
pub enum KeyMap {
    Elem,
    /// range start..: value at position i is start + i
    Range(usize),
}

#[derive(Clone, Copy, Debug)]
pub struct KindInfo {
    pub name: &'static str,
    pub known: bool,
    pub consuming: bool,
    pub by_ref: bool,
    pub clones: bool,
    pub adaptor: bool,
    pub nonfused: bool,
    /// waiting ticket protocol over an arbitrary iterator (buffered iterators allocate chunk_size slots)
    pub wrapper: bool,
    /// zero-sized elements: identity cannot be observed, only counts
    pub zst: bool,
    pub keymap: KeyMap,
}

#[derive(Clone, Copy, Debug)]
pub struct Model {
    pub len: usize,
    pub cursor: usize,
    pub skipped: bool,
    /// a single or one-shot pull reported the end
    pub end1: bool,
}
impl Model {
    pub fn new(len: usize) -> Self {
        Model { len, cursor: 0, skipped: false, end1: false }
    }
    pub fn pull(&mut self, n: usize) -> Option<(usize, usize)> {
        if self.skipped || self.cursor >= self.len || n == 0 {
            return None;
        }
        let b = self.cursor;
        let e = b.saturating_add(n).min(self.len);
        self.cursor = e;
        Some((b, e))
    }
    pub fn remaining(&self) -> usize {
        if self.skipped {
            0
        } else {
            self.len - self.cursor
        }
    }
}

#[derive(Clone, Debug)]
pub struct Viol {
    pub tags: &'static [&'static str],
    pub class: &'static str,
    pub step: usize,
    pub detail: String,
}

pub const MK_MASK: u64 = 0xFFFF_0000_0000_0000;
pub const MK_STEP: u64 = 0xF100_0000_0000_0000;
pub const MK_TERM: u64 = 0xF200_0000_0000_0000;
pub const MK_LEDGER: u64 = 0xF300_0000_0000_0000;
pub const MK_ALLOC: u64 = 0xF400_0000_0000_0000;
pub const MK_FAIL: u64 = 0xF500_0000_0000_0000;
pub const MK_PANIC: u64 = 0xF600_0000_0000_0000;

pub const T_CURSOR: &[&str] = &["C04"];
pub const T_CHUNK: &[&str] = &["C03", "C04"];
pub const T_CHUNKLEN: &[&str] = &["C03"];
pub const T_CHUNKOVER: &[&str] = &["C03", "C04", "C02"];
pub const T_CHUNKUNDER: &[&str] = &["C03", "C04"];
pub const T_REVIVE_IDX: &[&str] = &["C05", "C04", "C02"];
pub const T_SKIP_IDX: &[&str] = &["C06", "C02"];
pub const T_LEN_END_SKIP: &[&str] = &["C11", "C06", "C05"];
pub const T_INDEX: &[&str] = &["C02", "C04"];
pub const T_INDEX_CHUNK: &[&str] = &["C02", "C04", "C03"];
pub const T_REVIVE: &[&str] = &["C05", "C04"];
pub const T_SKIP: &[&str] = &["C06"];
pub const T_LEN: &[&str] = &["C11"];
pub const T_LEN_END: &[&str] = &["C11", "C05"];
pub const T_LEN_SKIP: &[&str] = &["C11", "C06"];
pub const T_REST: &[&str] = &["C10"];
pub const T_LEDGER: &[&str] = &["C08"];
/// the history ended with into_seq_iter: destroying an element twice / never is also a defect of the conversion
pub const T_LEDGER_SEQ: &[&str] = &["C08", "C10"];
pub const T_ALLOC: &[&str] = &["C15"];
pub const T_ADDR: &[&str] = &["C19"];
pub const T_SRC: &[&str] = &["C19", "C13"];
pub const T_FOREACH: &[&str] = &["C12", "C04"];
pub const T_ANY: &[&str] = &["*"];
pub const T_ZERO: &[&str] = &["C16"];
pub const T_OWNERS: &[&str] = &["C14"];

pub struct Env {
    pub ki: KindInfo,
    pub len: usize,
    /// the unit's `len` parameter as given (differs from `len` only for grid ranges)
    pub code: usize,
    pub m: Model,
    pub src_base: usize,
    pub stride: usize,
    pub obs: Vec<u64>,
    pub viol: Option<Viol>,
    /// violations of length queries: recorded (one per distinct tag set) but the history goes on, so that a wrong
    /// length does not mask what the following pulls and the terminal do
    pub qviols: Vec<Viol>,
    pub step: usize,
    pub handed: [u8; NPOS],
    pub scratch: Vec<(usize, Seen)>,
    /// C16: chunk size 0 is part of the alphabet (documented panics are expected)
    pub allow_zero: bool,
    pub seq_terminal: bool,
}

#[inline]
pub fn subj<R>(f: impl FnOnce() -> R) -> R {
    let p = alloc::track(true);
    let r = f();
    alloc::track(p);
    r
}

impl Env {
    pub fn new(ki: KindInfo, len: usize) -> Self {
        Env { ki, len, code: len, m: Model::new(len), src_base: 0, stride: 0, obs: Vec::with_capacity(256), viol: None, qviols: Vec::new(), step: 0, handed: [0; NPOS], scratch: Vec::with_capacity(16), allow_zero: false, seq_terminal: false }
    }
    pub fn reset(&mut self) {
        self.m = Model::new(self.len);
        self.obs.clear();
        self.viol = None;
        self.qviols.clear();
        self.step = 0;
        self.handed = [0; NPOS];
        self.scratch.clear();
    }
    #[inline]
    pub fn key_at(&self, pos: usize) -> usize {
        match self.ki.keymap {
            KeyMap::Elem => key_of(pos),
            KeyMap::Range(s) => s + pos,
        }
    }
    #[cold]
    pub fn fail(&mut self, tags: &'static [&'static str], class: &'static str, detail: String) {
        if self.viol.is_none() {
            self.obs.push(MK_FAIL | self.step as u64);
            self.viol = Some(Viol { tags, class, step: self.step, detail });
        }
    }
    #[cold]
    pub fn fail_q(&mut self, tags: &'static [&'static str], class: &'static str, detail: String) {
        if self.qviols.len() < 6 && !self.qviols.iter().any(|v| v.tags == tags) {
            self.obs.push(MK_FAIL | 0x1000 | self.step as u64);
            self.qviols.push(Viol { tags, class, step: self.step, detail });
        }
    }
    #[inline]
    pub fn ok(&self) -> bool {
        self.viol.is_none()
    }

    /// the harness becomes owner of item `x`, expected to be the element of position `pos`
    pub fn take<T: Obs>(&mut self, x: T, pos: usize, idx_reported: bool) {
        self.take_t(x, pos, if idx_reported { T_INDEX } else { T_CURSOR })
    }

    /// an item of a chunk: a wrong element also breaks "consecutive positions starting at the reported begin index"
    pub fn take_chunk<T: Obs>(&mut self, x: T, pos: usize) {
        self.take_t(x, pos, T_INDEX_CHUNK)
    }

    fn take_t<T: Obs>(&mut self, x: T, pos: usize, wrong: &'static [&'static str]) {
        let s = x.seen();
        self.obs.push(s.key as u64);
        if s.key == ZKEY && self.ki.zst {
            // nothing to compare
        } else if !s.valid {
            self.fail(T_LEDGER, "garbage", format!("delivered element at position {pos} is destroyed / uninitialised memory (key {})", s.key));
        } else if s.key != self.key_at(pos) {
            self.fail(wrong, "wrong-element", format!("position {pos}: expected key {} got key {}", self.key_at(pos), s.key));
        } else if self.ki.by_ref && s.addr != self.src_base + pos * self.stride {
            self.fail(T_ADDR, "address", format!("reference delivered for position {pos} does not point at the collection's element"));
        } else if self.ki.clones && !s.is_clone {
            self.fail(&["C13"], "not-a-clone", format!("position {pos}: a cloned() iterator delivered the original"));
        }
        if self.ki.consuming && pos < NPOS {
            self.handed[pos] += 1;
            if self.handed[pos] > 1 {
                self.fail(&["C08", "C14"], "handed-twice", format!("element of position {pos} was moved out twice"));
            }
        }
        drop(x);
    }

    /// a pull delivered although the model says the iteration is over
    fn unexpected_delivery(&mut self, what: &str, desc: String, with_index: bool) {
        if self.m.skipped {
            self.fail(if with_index { T_SKIP_IDX } else { T_SKIP }, "after-skip", format!("{what} delivered {desc} after skip_to_end"));
        } else if self.m.cursor >= self.m.len {
            // with an index: a sequential iteration of the source produces nothing at that position (C02)
            self.fail(if with_index { T_REVIVE_IDX } else { T_REVIVE }, "revived", format!("{what} delivered {desc} after the end had been reached"));
        } else {
            self.fail(T_ZERO, "zero-chunk", format!("{what} delivered {desc} for a request of size 0"));
        }
    }

    pub fn single<T: Obs>(&mut self, what: &str, got: Option<(Option<usize>, T)>) {
        let had_more = !self.m.skipped && self.m.cursor < self.m.len;
        let exp = self.m.pull(1);
        match (got, exp) {
            (None, None) => {
                self.obs.push(1);
                self.m.end1 = true;
            }
            (Some((idx, v)), Some((b, _))) => {
                self.obs.push(2);
                if let Some(i) = idx {
                    self.obs.push(i as u64);
                    if i != b {
                        let k = v.seen().key;
                        self.fail(T_INDEX, "wrong-index", format!("{what} reported index {i} (key {k}) but the cursor is at {b}"));
                        return;
                    }
                }
                self.take(v, b, idx.is_some());
            }
            (Some((idx, v)), None) => {
                let s = v.seen();
                self.unexpected_delivery(what, format!("an element (index {idx:?}, key {})", s.key), idx.is_some());
                drop(v);
            }
            (None, Some((b, _))) => {
                let _ = had_more;
                self.fail(T_CURSOR, "early-end", format!("{what} reported the end although position {b} is undelivered"));
            }
        }
    }

    /// compare the shape of a chunk with the model; returns the expected interval if it matches
    pub fn chunk_shape(&mut self, what: &str, n: usize, got: Option<(usize, usize)>, oneshot: bool) -> Option<(usize, usize)> {
        let exp = self.m.pull(n);
        match (got, exp) {
            (None, None) => {
                self.obs.push(1);
                if oneshot && n > 0 {
                    self.m.end1 = true;
                }
                None
            }
            (Some((b, l)), Some((eb, ee))) => {
                self.obs.push(2);
                self.obs.push(b as u64);
                self.obs.push(l as u64);
                if b != eb {
                    self.fail(T_CHUNK, "wrong-begin", format!("{what}: begin index {b}, cursor is at {eb}"));
                    None
                } else if l != ee - eb {
                    let class = if l == 0 { "empty-chunk" } else { "wrong-chunk-len" };
                    self.fail(T_CHUNK, class, format!("{what}: chunk at {b} announces {l} elements, expected {} (n = {n}, source length {})", ee - eb, self.len));
                    None
                } else {
                    Some((eb, ee))
                }
            }
            (Some((b, l)), None) => {
                self.unexpected_delivery(what, format!("a chunk (begin {b}, len {l})"), true);
                None
            }
            (None, Some((eb, ee))) => {
                self.fail(T_CHUNK, "early-end", format!("{what} reported the end although positions {eb}..{ee} are undelivered"));
                None
            }
        }
    }

    /// consume up to `k` items of a chunk that covers positions `b + done ..  e`
    pub fn consume<T: Obs, It: ExactSizeIterator<Item = T> + ?Sized>(&mut self, what: &str, values: &mut It, b: usize, e: usize, done: &mut usize, k: usize) {
        let mut j = 0;
        while j < k && self.ok() {
            let l0 = values.len();
            if l0 != e - b - *done {
                self.fail(T_CHUNKLEN, "len-inexact", format!("{what}: len() is {l0} with {} elements left in the chunk", e - b - *done));
                return;
            }
            match values.next() {
                Some(x) => {
                    if b + *done >= e {
                        let s = x.seen();
                        self.fail(T_CHUNKOVER, "len-mismatch", format!("{what}: chunk yields more than the {} announced elements: key {} arrives as position {}", e - b, s.key, b + *done));
                        return;
                    }
                    self.take_chunk(x, b + *done);
                    *done += 1;
                }
                None => {
                    if b + *done != e {
                        self.fail(T_CHUNKUNDER, "len-mismatch", format!("{what}: chunk announced {} elements but yielded {}", e - b, *done));
                    }
                    return;
                }
            }
            j += 1;
        }
    }

    /// consume a chunk covering positions b..e through an Iterator method other than `next`
    pub fn consume_via<T: Obs, It: ExactSizeIterator<Item = T>>(&mut self, what: &str, mut values: It, b: usize, e: usize, mode: usize) {
        let len = e - b;
        match mode {
            0 | 1 | 9 => {
                let k = mode;
                let r = subj(|| values.nth(k));
                match r {
                    Some(x) => {
                        if k >= len {
                            let s = x.seen();
                            self.fail(T_CHUNKOVER, "len-mismatch", format!("{what}: nth({k}) of a chunk of {len} elements yielded an element (key {})", s.key));
                        } else {
                            self.take_chunk(x, b + k);
                            let left = values.len();
                            if left != len - k - 1 && self.ok() {
                                self.fail(T_CHUNKLEN, "len-inexact", format!("{what}: len() is {left} after nth({k}) on a chunk of {len}"));
                            }
                        }
                    }
                    None => {
                        if k < len {
                            self.fail(T_CHUNKUNDER, "len-mismatch", format!("{what}: nth({k}) of a chunk of {len} elements yielded nothing"));
                        }
                    }
                }
            }
            20 => {
                let c = subj(|| values.count());
                self.obs.push(c as u64);
                if c != len {
                    self.fail(T_CHUNKLEN, "len-mismatch", format!("{what}: count() of a chunk announcing {len} elements is {c}"));
                }
                return;
            }
            21 => {
                let r = subj(|| values.last());
                match r {
                    Some(x) => self.take_chunk(x, e - 1),
                    None => self.fail(T_CHUNKUNDER, "len-mismatch", format!("{what}: last() of a chunk of {len} elements yielded nothing")),
                }
                return;
            }
            _ => {
                let v: Vec<T> = subj(|| values.skip(1).collect());
                if v.len() + 1 != len {
                    self.fail(T_CHUNKLEN, "len-mismatch", format!("{what}: skip(1) of a chunk of {len} elements yielded {}", v.len()));
                }
                for (j, x) in v.into_iter().enumerate() {
                    if self.ok() {
                        self.take_chunk(x, b + 1 + j);
                    }
                }
                return;
            }
        }
        subj(|| drop(values));
    }

    pub fn query<I: ConcurrentIter>(&mut self, it: &I) {
        if !self.ok() {
            return;
        }
        let l = subj(|| it.try_get_len());
        let h = subj(|| it.has_more());
        self.obs.push(match l {
            None => 0x1e00,
            Some(x) => 0x1e01u64.wrapping_add(x as u64),
        });
        self.check_len("try_get_len", l);
        let hl = match h {
            HasMore::Maybe => None,
            HasMore::No => Some(0),
            HasMore::Yes(0) => {
                self.fail_q(T_LEN, "yes-zero", "has_more answered Yes(0)".into());
                return;
            }
            HasMore::Yes(n) => Some(n),
        };
        if hl != l {
            self.fail_q(T_LEN, "has-more-inconsistent", format!("has_more {h:?} disagrees with try_get_len {l:?}"));
        }
    }

    pub fn check_len(&mut self, what: &str, l: Option<usize>) {
        let rem = self.m.remaining();
        if self.ki.known {
            if l != Some(rem) {
                let ended = self.m.end1 || self.m.cursor >= self.m.len;
                let tags = if self.m.skipped && ended { T_LEN_END_SKIP } else if self.m.skipped { T_LEN_SKIP } else if rem == 0 { T_LEN_END } else { T_LEN };
                self.fail_q(tags, "len-wrong", format!("{what} is {l:?} but {rem} elements will still be delivered"));
            }
        } else {
            match l {
                None => {
                    if self.m.skipped {
                        self.fail_q(T_LEN_SKIP, "maybe-after-skip", format!("{what} is unknown / Maybe after skip_to_end"));
                    } else if self.m.end1 {
                        self.fail_q(T_LEN_END, "maybe-after-end", format!("{what} is unknown / Maybe after a single or one-shot pull reported the end"));
                    }
                }
                Some(0) => {
                    if rem != 0 {
                        self.fail_q(T_LEN, "false-no", format!("{what} answers 0 / No although {rem} elements will still be delivered"));
                    }
                }
                Some(x) => self.fail_q(T_LEN, "yes-on-unknown", format!("{what} is Some({x}) for a source of unknown size")),
            }
        }
    }
}

/// Executes `hist` then `term` on `it` in lock-step with `env.m`. Panics propagate to the caller.
pub fn run_history<I: ConcurrentIter>(env: &mut Env, it: I, hist: &[SOp], term: Term)
where
    I::Item: Obs,
{
    {
        let itr = &it;
        let mut held: Option<(Box<dyn ExactSizeIterator<Item = I::Item> + '_>, usize, usize, usize)> = None;
        let mut buf = None;
        env.query(itr);
        for (i, op) in hist.iter().enumerate() {
            if !env.ok() {
                break;
            }
            env.step = i;
            crate::CUR_STEP.store(i, std::sync::atomic::Ordering::Relaxed);
            env.obs.push(MK_STEP | i as u64);
            match *op {
                SOp::Next => {
                    let r = subj(|| itr.next());
                    env.single("next", r.map(|v| (None, v)));
                }
                SOp::IdVal => {
                    let r = subj(|| itr.next_id_and_value());
                    env.single("next_id_and_value", r.map(|x| (Some(x.idx), x.value)));
                }
                SOp::Vals => {
                    let r = subj(|| itr.values().next());
                    env.single("values().next", r.map(|v| (None, v)));
                }
                SOp::IdsVals => {
                    let r = subj(|| itr.ids_and_values().next());
                    env.single("ids_and_values().next", r.map(|(i, v)| (Some(i), v)));
                }
                SOp::Chunk(n, k) => {
                    let n = resolve(n, env.len);
                    let r = subj(|| itr.next_chunk(n));
                    match r {
                        Some(c) => {
                            let mut values = c.values;
                            let l = values.len();
                            if let Some((b, e)) = env.chunk_shape("next_chunk", n, Some((c.begin_idx, l)), true) {
                                let mut done = 0;
                                env.consume("next_chunk", &mut values, b, e, &mut done, if k == ALL { e - b + 1 } else { k });
                            }
                            subj(|| drop(values));
                        }
                        None => {
                            env.chunk_shape("next_chunk", n, None, true);
                        }
                    }
                }
                SOp::ChunkVia(n, mode) => {
                    let n = resolve(n, env.len);
                    match subj(|| itr.next_chunk(n)) {
                        Some(c) => {
                            let l = c.values.len();
                            if let Some((b, e)) = env.chunk_shape("next_chunk", n, Some((c.begin_idx, l)), true) {
                                env.consume_via("next_chunk", c.values, b, e, mode);
                            }
                        }
                        None => {
                            env.chunk_shape("next_chunk", n, None, true);
                        }
                    }
                }
                SOp::Hold(n) => {
                    let n = resolve(n, env.len);
                    if let Some(h) = held.take() {
                        subj(|| drop(h));
                    }
                    let r = subj(|| itr.next_chunk(n));
                    match r {
                        Some(c) => {
                            let l = c.values.len();
                            if let Some((b, e)) = env.chunk_shape("next_chunk", n, Some((c.begin_idx, l)), true) {
                                held = Some((Box::new(c.values), b, e, 0));
                            }
                        }
                        None => {
                            env.chunk_shape("next_chunk", n, None, true);
                        }
                    }
                }
                SOp::HeldNext(k) => {
                    if let Some((values, b, e, done)) = held.as_mut() {
                        let (b, e) = (*b, *e);
                        env.consume("held chunk", &mut **values, b, e, done, if k == ALL { e - b + 1 } else { k });
                    }
                }
                SOp::HeldDrop => {
                    if let Some(h) = held.take() {
                        subj(|| drop(h));
                    }
                }
                SOp::BufNew(n) => {
                    let mut n = resolve(n, env.len);
                    if env.ki.wrapper && n > 4096 {
                        // buffered iterators over arbitrary iterators allocate chunk_size slots by documentation
                        n = 4096;
                    }
                    if let Some(b) = buf.take() {
                        subj(|| drop(b));
                    }
                    if n == 0 {
                        // documented panic
                        let r = std::panic::catch_unwind(std::panic::AssertUnwindSafe(|| {
                            let _ = subj(|| itr.buffered_iter(0));
                        }));
                        alloc::track(false);
                        env.obs.push(r.is_err() as u64);
                        if r.is_ok() {
                            env.fail(T_ZERO, "no-panic", "buffered_iter(0) did not panic".into());
                        }
                    } else {
                        buf = Some((subj(|| itr.buffered_iter(n)), n));
                    }
                }
                SOp::BufNext(k) => {
                    if let Some((bi, n)) = buf.as_mut() {
                        let n = *n;
                        let r = subj(|| bi.next());
                        match r {
                            Some(c) => {
                                let mut values = c.values;
                                let l = values.len();
                                if let Some((b, e)) = env.chunk_shape("buffered next", n, Some((c.begin_idx, l)), false) {
                                    let mut done = 0;
                                    env.consume("buffered chunk", &mut values, b, e, &mut done, if k == ALL { e - b + 1 } else { k });
                                }
                                subj(|| drop(values));
                            }
                            None => {
                                env.chunk_shape("buffered next", n, None, false);
                            }
                        }
                    }
                }
                SOp::BufDrop => {
                    if let Some(b) = buf.take() {
                        subj(|| drop(b));
                    }
                }
                SOp::BufVia(mode) => {
                    if let Some((bi, n)) = buf.as_mut() {
                        let n = *n;
                        match subj(|| bi.next()) {
                            Some(c) => {
                                let l = c.values.len();
                                if let Some((b, e)) = env.chunk_shape("buffered next", n, Some((c.begin_idx, l)), false) {
                                    env.consume_via("buffered chunk", c.values, b, e, mode);
                                }
                            }
                            None => {
                                env.chunk_shape("buffered next", n, None, false);
                            }
                        }
                    }
                }
                SOp::ForEach(n) | SOp::EnumForEach(n) | SOp::Fold(n) => {
                    let mut n = resolve(n, env.len);
                    if env.ki.wrapper && n > 4096 {
                        // chunk sizes > 1 go through a buffered iterator, which allocates chunk_size slots for arbitrary iterators
                        n = 4096;
                    }
                    let mut got = std::mem::take(&mut env.scratch);
                    got.clear();
                    if n == 0 {
                        let r = std::panic::catch_unwind(std::panic::AssertUnwindSafe(|| {
                            subj(|| match *op {
                                SOp::ForEach(_) => itr.for_each(0, |x| drop(x)),
                                SOp::EnumForEach(_) => itr.enumerate_for_each(0, |_, x| drop(x)),
                                _ => {
                                    itr.fold(0, 0u64, |a, x| {
                                        drop(x);
                                        a
                                    });
                                }
                            })
                        }));
                        alloc::track(false);
                        env.obs.push(r.is_err() as u64);
                        if r.is_ok() {
                            env.fail(T_ZERO, "no-panic", "for_each / fold with chunk size 0 did not panic".into());
                        }
                        env.scratch = got;
                        continue;
                    }
                    let mut fold_res = None;
                    match *op {
                        SOp::ForEach(_) => subj(|| {
                            itr.for_each(n, |x| {
                                got.push((usize::MAX, x.seen()));
                                drop(x);
                            })
                        }),
                        SOp::EnumForEach(_) => subj(|| {
                            itr.enumerate_for_each(n, |i, x| {
                                got.push((i, x.seen()));
                                drop(x);
                            })
                        }),
                        _ => {
                            fold_res = Some(subj(|| {
                                itr.fold(n, 0u64, |a, x| {
                                    let s = x.seen();
                                    got.push((usize::MAX, s));
                                    drop(x);
                                    a.wrapping_mul(31).wrapping_add(s.key as u64)
                                })
                            }));
                        }
                    }
                    let (b, e) = if env.m.skipped { (env.m.cursor, env.m.cursor) } else { (env.m.cursor, env.m.len) };
                    if !env.m.skipped {
                        env.m.cursor = env.m.len;
                    }
                    if n == 1 {
                        env.m.end1 = true;
                    }
                    env.obs.push(got.len() as u64);
                    if got.len() != e - b {
                        env.fail(T_FOREACH, "foreach-count", format!("closure invoked {} times, {} elements were undelivered", got.len(), e - b));
                    } else {
                        let mut acc = 0u64;
                        for (j, (idx, s)) in got.iter().enumerate() {
                            let pos = b + j;
                            env.obs.push(s.key as u64);
                            acc = acc.wrapping_mul(31).wrapping_add(s.key as u64);
                            if *idx != usize::MAX && *idx != pos {
                                env.fail(&["C12", "C02"], "foreach-index", format!("enumerate_for_each passed index {idx} for the element of position {pos}"));
                                break;
                            }
                            if (s.key != env.key_at(pos) || !s.valid) && !(env.ki.zst && s.key == ZKEY) {
                                env.fail(T_FOREACH, "foreach-element", format!("closure call {j} received key {} but position {pos} holds key {}", s.key, env.key_at(pos)));
                                break;
                            }
                            if env.ki.consuming && pos < NPOS {
                                env.handed[pos] += 1;
                            }
                        }
                        if let Some(r) = fold_res {
                            if r != acc && env.ok() {
                                env.fail(&["C12"], "fold-result", format!("fold returned {r:#x}, sequential fold of the delivered elements is {acc:#x}"));
                            }
                        }
                    }
                    env.scratch = got;
                }
                SOp::ForEachSkip(n, k) => {
                    // a skip from inside the closure: the call stops after the chunk it has already pulled
                    let n = resolve(n, env.len).clamp(1, 4096);
                    let mut got = std::mem::take(&mut env.scratch);
                    got.clear();
                    let mut calls = 0usize;
                    subj(|| {
                        itr.enumerate_for_each(n, |i, x| {
                            got.push((i, x.seen()));
                            drop(x);
                            calls += 1;
                            if calls == k {
                                itr.skip_to_end();
                            }
                        })
                    });
                    let b = env.m.cursor;
                    let rem = if env.m.skipped { 0 } else { env.m.len - env.m.cursor };
                    let v = got.len();
                    env.obs.push(v as u64);
                    let (lo, hi) = if rem < k { (rem, rem) } else { (k, rem.min(k.div_ceil(n) * n)) };
                    if v < lo || v > hi {
                        let tags: &'static [&'static str] = if env.m.skipped { T_SKIP } else if v < lo { T_FOREACH } else { &["C06", "C12"] };
                        env.fail(tags, "foreach-skip-count", format!("closure invoked {v} times; {rem} elements were undelivered, the closure skips to the end in call {k}, chunk size {n}: between {lo} and {hi} calls are possible"));
                    } else {
                        for (j, (idx, s)) in got.iter().enumerate() {
                            let pos = b + j;
                            env.obs.push(s.key as u64);
                            if *idx != pos {
                                env.fail(&["C12", "C02"], "foreach-index", format!("enumerate_for_each passed index {idx} for the element of position {pos}"));
                                break;
                            }
                            if (s.key != env.key_at(pos) || !s.valid) && !(env.ki.zst && s.key == ZKEY) {
                                env.fail(&["C12", "C06"], "foreach-element", format!("closure call {j} received key {} but position {pos} holds key {}", s.key, env.key_at(pos)));
                                break;
                            }
                            if env.ki.consuming && pos < NPOS {
                                env.handed[pos] += 1;
                            }
                        }
                    }
                    if !env.m.skipped {
                        env.m.cursor += v.min(rem);
                        if rem >= k {
                            env.m.skipped = true;
                        } else if n == 1 {
                            env.m.end1 = true;
                        }
                    }
                    env.scratch = got;
                }
                SOp::Skip => {
                    subj(|| itr.skip_to_end());
                    env.m.skipped = true;
                }
                SOp::Len => {
                    let l = subj(|| itr.try_get_len());
                    env.obs.push(match l {
                        None => 0x1f00,
                        Some(x) => 0x1f01u64.wrapping_add(x as u64),
                    });
                    env.check_len("try_get_len", l);
                }
                SOp::HasMore => {
                    let h = subj(|| itr.has_more());
                    let l = match h {
                        HasMore::Maybe => None,
                        HasMore::No => Some(0),
                        HasMore::Yes(n) => Some(n),
                    };
                    env.obs.push(match l {
                        None => 0x2f00,
                        Some(x) => 0x2f01u64.wrapping_add(x as u64),
                    });
                    if h == HasMore::Yes(0) {
                        env.fail_q(T_LEN, "yes-zero", "has_more answered Yes(0)".into());
                    }
                    env.check_len("has_more", l);
                }
                _ => {}
            }
            env.query(itr);
        }
        if let Some(h) = held.take() {
            subj(|| drop(h));
        }
        if let Some(b) = buf.take() {
            subj(|| drop(b));
        }
    }
    env.step = hist.len();
    env.seq_terminal = matches!(term, Term::Seq(_));
    crate::CUR_STEP.store(hist.len(), std::sync::atomic::Ordering::Relaxed);
    env.obs.push(MK_TERM);
    match term {
        Term::Drop => subj(|| drop(it)),
        Term::Seq(k) => {
            let mut seq = subj(|| it.into_seq_iter());
            let exp_b = env.m.cursor.min(env.m.len);
            let (lo, hi) = seq.size_hint();
            env.obs.push(lo as u64);
            if env.ki.known && !env.ki.nonfused {
                let rem = env.len - exp_b;
                let ok = if env.m.skipped { lo <= rem && hi.map_or(false, |h| h <= rem) } else { lo == rem && hi == Some(rem) };
                if !ok {
                    env.fail(T_REST, "remainder-size", format!("into_seq_iter reports size_hint ({lo}, {hi:?}) but {rem} elements are undelivered{}", if env.m.skipped { " (at most, after skip_to_end)" } else { "" }));
                }
            }
            let mut j = 0usize;
            let mut ids: [usize; NPOS] = [0; NPOS];
            while j < k && j < NPOS {
                match subj(|| seq.next()) {
                    Some(x) => {
                        let s = x.seen();
                        ids[j] = s.key;
                        env.obs.push(s.key as u64);
                        if !s.valid && env.ok() {
                            env.fail(T_LEDGER, "garbage", format!("into_seq_iter yielded destroyed / uninitialised memory (key {})", s.key));
                        }
                        if env.ki.consuming {
                            if let Some(p) = pos_of(s.key) {
                                env.handed[p] += 1;
                                if env.handed[p] > 1 && env.ok() {
                                    env.fail(&["C08", "C10"], "handed-twice", format!("into_seq_iter yielded the element of position {p}, which had already been delivered"));
                                }
                            }
                        }
                        drop(x);
                        j += 1;
                    }
                    None => break,
                }
            }
            subj(|| drop(seq));
            if env.ok() && !env.ki.nonfused {
                let got = &ids[..j];
                if !env.m.skipped {
                    // exactly the undelivered suffix, in order (a prefix of it if only k were taken)
                    let want_n = if k == ALL { (env.len - exp_b).min(NPOS) } else { k.min(env.len - exp_b) };
                    let ok = j == want_n && (env.ki.zst || (0..j).all(|t| got[t] == env.key_at(exp_b + t)));
                    if !ok {
                        let want: Vec<usize> = (exp_b..env.len).map(|p| env.key_at(p)).collect();
                        env.fail(T_REST, "remainder", format!("into_seq_iter yielded keys {:?}; undelivered elements are {:?} (taking {})", got, want, if k == ALL { "all".to_string() } else { k.to_string() }));
                    }
                } else if k == ALL {
                    // a suffix of the undelivered elements
                    let ok = j <= env.len - exp_b && (env.ki.zst || (0..j).all(|t| got[t] == env.key_at(env.len - j + t)));
                    if !ok {
                        env.fail(&["C10", "C06"], "remainder-after-skip", format!("into_seq_iter after skip_to_end yielded keys {:?}, not a suffix of the undelivered elements", got));
                    }
                }
            }
        }
    }
}

/// ledger + allocation oracle after everything has been dropped
pub fn end_checks(env: &mut Env, source_still_alive: bool) {
    LEDGER.with(|l| {
        env.obs.push(MK_LEDGER | l.garbage.get() as u64);
        let llen = env.len.min(NPOS);
        for p in 0..llen {
            env.obs.push(l.dropped[p].get() as u64 | (l.clone_made[p].get() as u64) << 8 | (l.clone_dropped[p].get() as u64) << 16);
        }
        if !env.ok() {
            return;
        }
        if l.garbage.get() != 0 {
            env.fail(T_LEDGER, "garbage", format!("{} destructor runs on memory that is not a live element", l.garbage.get()));
            return;
        }
        if env.ki.zst {
            env.obs.push(l.zst_dropped.get() as u64);
            let want = if env.ki.consuming { env.len as u32 } else { 0 };
            if l.zst_dropped.get() != want {
                let class = if l.zst_dropped.get() < want { "never-dropped" } else { "dropped-twice" };
                env.fail(T_LEDGER, class, format!("{} zero-sized elements were destroyed, the collection had {} (expected {want} destructor runs at this point)", l.zst_dropped.get(), env.len));
            }
        } else if env.ki.consuming {
            let bad: Vec<(usize, u8)> = (0..llen).filter(|&p| l.dropped[p].get() != 1).map(|p| (p, l.dropped[p].get())).collect();
            if !bad.is_empty() {
                let class = if bad.iter().all(|b| b.1 == 0) { "never-dropped" } else { "dropped-twice" };
                env.fail(if env.seq_terminal { T_LEDGER_SEQ } else { T_LEDGER }, class, format!("(position, times destroyed) after everything was dropped: {bad:?}"));
            }
        } else if source_still_alive {
            let bad: Vec<usize> = (0..llen).filter(|&p| l.dropped[p].get() != 0).collect();
            if !bad.is_empty() {
                env.fail(T_SRC, "source-modified", format!("a non-consuming iterator destroyed source elements {bad:?}"));
            }
            let cl: Vec<usize> = (0..NPOS).filter(|&p| l.clone_made[p].get() != l.clone_dropped[p].get()).collect();
            if !cl.is_empty() && env.ok() {
                env.fail(&["C13", "C08"], "clone-ledger", format!("clones made / destroyed differ at positions {cl:?}"));
            }
        }
    });
}

pub fn alloc_check(env: &mut Env) {
    let (blocks, bytes) = alloc::live();
    env.obs.push(MK_ALLOC | blocks as u64);
    if blocks != 0 || bytes != 0 {
        if let Some(v) = env.viol.as_mut() {
            if v.tags == T_LEDGER || v.tags == T_LEDGER_SEQ {
                // an element that is never destroyed also leaks the memory it owns
                v.tags = &["C08", "C15"];
                v.detail.push_str(&format!("; {blocks} heap block(s) / {bytes} bytes still live"));
            }
        }
    }
    if (blocks != 0 || bytes != 0) && env.ok() {
        env.fail(T_ALLOC, "leak", format!("{blocks} heap block(s) / {bytes} bytes that belonged to the consumed collection or were allocated by the iterator are still live after everything was dropped"));
    }
}
