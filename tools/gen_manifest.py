#!/usr/bin/env python3
"""Writes /verif/MANIFEST.json from the table below (kept in one place so that it stays consistent)."""
import json, subprocess, os
V = "/verif"
hook_commit = subprocess.run(["git", "-C", "/repo", "log", "--format=%H %s"], stdout=subprocess.PIPE, text=True).stdout.splitlines()
hooks = [l.split()[0] for l in hook_commit if "verif hook" in l]

E1 = "E1 sched: stateless/stateful exploration of ALL interleavings of the crate's atomic operations for closed 2-3 thread systems on the real code under a controlled scheduler (own coroutine scheduler + atomics shim, happens-before monitor from the declared orderings, exact hang predicate)"
E3 = "E3 seq: bounded-exhaustive enumeration of ALL operation histories up to a depth over a per-property alphabet x every source kind x every length, executed on the production build in lock-step with a reference cursor, with destructor and allocation ledgers"
E4 = "E4 probe: exhaustive product of minimal client programs (constructor x element thread-safety x wrapped-iterator thread-safety x use; lifetime scenarios), each with an accepting twin, compiled against the current tree"

C = {
 "C01": ("model_checking", ["E1"], "controlled-scheduler exploration of all interleavings (complete for 2 threads, preemption-bounded for 3) with an exactly-once position oracle",
         "Every interleaving of the listed closed systems (every kind, length 0..4, every pair of draining plans incl. prefixed ones; triples at preemption bound 2/3) is explored on the real code; after join the multiset of delivered positions must be exactly 0..len-1, duplicates are flagged when they happen. A coverage statement for the bounded systems, not a sample.", "3.1, 5/C01"),
 "C02": ("model_checking", ["E1", "E3"], "controlled-scheduler exploration + bounded-exhaustive histories (incl. positional low-level access on the wrapper); every reported (index, element) pair compared with the source", "Every (index, value) pair returned in every explored interleaving / sequential history is compared with the source position (values differ from indices; reference kinds also by address).", "5/C02"),
 "C03": ("model_checking", ["E3", "E1"], "bounded-exhaustive operation histories vs. reference cursor + controlled-scheduler exploration; per-chunk contract oracle", "All histories up to depth 4/5 over chunk sizes {1,2,3,len,len+1} x consumption {0,1,all} x held / buffered chunks, and all interleavings of chunk-mixing plans: non-empty, <= n, exact ExactSizeIterator::len, consecutive positions, short only at the end.", "5/C03"),
 "C04": ("model_checking", ["E1", "E3"], "controlled-scheduler exploration with online prefix / per-thread / real-time-order oracles + exhaustive sequential histories vs. reference cursor", "Gap-free prefix at every quiescent point, per-thread monotonicity, real-time order (snapshot of completed calls taken at the first atomic operation of each call) on every interleaving; every sequential history equals the reference cursor.", "3.1 oracle inputs, 5/C04"),
 "C05": ("model_checking", ["E3", "E1"], "bounded-exhaustive histories continuing past the end (incl. a non-fused wrapped iterator) + interleavings of drain-then-pull plans (incl. overshooting chunks and skip_to_end on another thread)", "Once an end report completed, no later-starting pull delivers, none hangs and no length is positive: all histories up to depth 5/6 and all interleavings of the listed plans.", "5/C05, 11.10"),
 "C06": ("model_checking", ["E3", "E1"], "skip_to_end inserted at every position of every bounded history + all interleavings of skipping and pulling plans", "For every completed skip, later-starting pulls report the end and has_more is No; no duplicate / disorder / wrong index in any execution containing skips.", "5/C06"),
 "C07": ("model_checking", ["E1"], "controlled-scheduler exploration with a vector-clock happens-before monitor computed from the memory orderings in the source; harness-owned probe iterator reports its accesses", "All interleavings of 2 (complete) and 3 (bounded) threads mixing singles, chunks, buffered pulls and skip on iterators wrapping a probe: no two next() executions unordered by happens-before, no overlap, no race on storage slots of consumed collections.", "3.1 happens-before monitor, 5/C07"),
 "C08": ("model_checking", ["E3", "E1"], "bounded-exhaustive histories with a destructor ledger per element + concurrent stop-early systems followed by drop / into_seq_iter", "Every element of a consumed vec / array / owning iterator is destroyed exactly once and handed out at most once over all histories (depth 5/6, every terminal) and all interleavings of the listed systems.", "5/C08"),
 "C09": ("model_checking", ["E1"], "exhaustive interleaving exploration with an exact hang predicate (spin-blocked threads, no enabled thread) + adversarial freeze of one thread at every point", "(a) no reachable hang / non-returning state in any explored system; (b) for counter-only kinds, with one thread frozen forever after k operations (every k), all interleavings of the others finish; non-vacuity: the same adversary does hang the blocking wrapper.", "3.1 waiting made visible, 5/C09"),
 "C10": ("model_checking", ["E3", "E1"], "bounded-exhaustive histories ending in into_seq_iter + concurrent-then-joined systems; remainder compared with the model's undelivered suffix", "into_seq_iter yields exactly the undelivered suffix in order (a suffix after skip), with exact size hint, for all histories and all interleavings of stop-early plans.", "5/C10"),
 "C11": ("model_checking", ["E3", "E1"], "try_get_len / has_more queried after every step of every bounded history + queries racing with pulls under all interleavings", "Exact length at every quiescent point for known sizes; Maybe only for unknown sizes and never after a single/one-shot end report or skip; reported lengths never increase and 0/No is definitive in every interleaving.", "5/C11"),
 "C12": ("model_checking", ["E1", "E3"], "controlled-scheduler exploration of for_each / enumerate_for_each / fold callers (chunk sizes 1,2,3) against each other and direct pullers", "Closure invoked exactly once per element with the right index, fold results flow through the accumulator, iterator exhausted after return, on every interleaving / sequential history.", "5/C12"),
 "C13": ("model_checking", ["E3", "E1"], "lock-step pair: every bounded history applied to the adaptor and to an identical underlying reference-yielding iterator + the concurrent oracles on adaptor kinds + outcome sets of exhaustively explored closed systems compared between each adaptor and its underlying iterator", "Observation streams of cloned()/copied() iterators equal those of the underlying iterator step by step; clones are clones, source untouched; concurrent exactly-once/order oracles on adaptor kinds; per closed system (2-3 threads) the adaptor and its underlying reference-yielding iterator reach exactly the same set of outcomes over all interleavings.", "5/C13, 11.11"),
 "C14": ("exploration", ["E4", "E3"], "exhaustive family of probe programs judged by the compiler against a reference typing rule + bounded-exhaustive safe low-level call sequences with an ownership ledger", "The enumeration of programs / call sequences is exhaustive over the stated family; the verdict on one program is rustc's (not a model checker's), which is why the level is 'exploration'. Two genuine defects are recorded as known findings (F11, F12).", "3.4, 5/C14"),
 "C15": ("model_checking", ["E3", "E1"], "bounded-exhaustive histories on consuming kinds with a counting global allocator (element sizes 8 and 24 bytes, elements owning a heap block) + the same ledger after every interleaving of concurrent stop-early systems", "After every history and terminal, and after every explored interleaving followed by drop / into_seq_iter, no heap block that belonged to the consumed collection or was allocated by the iterator machinery is live.", "5/C15, 11.2"),
 "C16": ("exploration", ["E3", "E1"], "exhaustive grid of boundary inputs (range bounds^2, chunk sizes up to usize::MAX, zero sizes) x short follow-up histories, in a build with and one without overflow checks, against a mathematical model + all interleavings of zero-sized and one extreme chunk pull racing with ordinary pulls", "Every cell of the stated grid followed by every history of depth <= 3/4: exact in-range values and indices, no empty chunk, no panic except the documented ones (which must occur). Concurrent leg: zero-sized / usize::MAX/2 chunk pulls racing with single and chunk pulls on every kind under all interleavings keep exactly-once delivery (cumulative requests stay below usize::MAX, see DESIGN.md 11.10 residual).", "5/C16, 11.10"),
 "C17": ("exploration", ["E3", "E1"], "differential: the complete transcripts of an exhaustive history set produced by two differently compiled harness binaries (debug assertions + overflow checks on / off) must be identical, aborts are caught per history; plus the outcome sets of exhaustively explored 2-thread systems (length queries racing with pulls) compared between two differently compiled scheduler binaries", "Transcript hashes per work unit compared between profiles; any abort (std precondition check) or difference is localised to the first differing history. Concurrent leg: per configuration identical outcome sets and violation classes in both profiles.", "5/C17, 11.2"),
 "C18": ("fault_enumeration", ["E1"], "fault injection at every position k (k-th next() of the wrapped iterator - with a scheduling point inside the panicking call -, k-th clone, k-th closure call) x all interleavings of the other threads (scheduling points stay active while the panic unwinds, so destructors of unwind guards interleave with the other threads), with hang predicate, drop ledger and abort attribution, in an optimized build and in one with debug assertions", "For every crash point and every interleaving: no hang, no duplicate, exact-once destruction.", "5/C18, 11.10"),
 "C19": ("model_checking", ["E3", "E1"], "bounded-exhaustive histories over up to three live iterators (fresh and cloned) on one collection vs. one reference cursor per iterator, with address checks + all interleavings of clone() racing with pulls on the original", "Every delivered reference points at the collection's element, iterators and clones progress independently (all are queried after every step), the collection is intact afterwards. Concurrent leg: a clone made while other threads pull never panics, delivers exactly the positions p..len in order with p a position the original had during the call, and leaves the original's exactly-once / order oracles intact.", "5/C19, 11.11"),
}
NOTE = {
 "E1": "trusted: the scheduler/shim in /verif/engine, the harness oracles, rustc; assumes SC interleavings + vector-clock happens-before, assumption SPIN (double-checked), compare_exchange_weak modelled with one fixed spurious failure per thread and location, bounds stated in the evidence",
 "E3": "trusted: the reference cursor (seq/src/exec.rs), the ledgers, rustc; single-threaded, bounded depth / lengths / chunk sizes as stated in the evidence",
 "E4": "trusted: rustc's type and borrow checker; finite family of programs",
}
checks = []
for pid, (level, engines, tech, text, ref) in sorted(C.items()):
    checks.append({
        "property_id": pid,
        "quick_cmd": f"./check {pid} --tier quick",
        "thorough_cmd": f"./check {pid} --tier thorough",
        "evidence_file": f"/verif/evidence/{pid}.json",
        "replay_cmd_template": "./check replay {path}",
        "engine": "+".join(engines),
        "level_claimed": {"category": level, "text": text, "design_ref": f"DESIGN.md section {ref}"},
        "level_note": "; ".join(NOTE[e] for e in engines),
        "technique": tech,
    })
m = {
 "version": 1,
 "setup_cmd": "./check build",
 "hooks": {
   "guard": "orx_concurrent_iter_verif",
   "enable": "RUSTFLAGS='--cfg orx_concurrent_iter_verif' with the shadow manifest /verif/subject/Cargo.toml ([lib] path = /repo/src/lib.rs, extern crate orx_verif_shim); only E1 builds with the hook, E3/E4 use the unmodified production build",
   "baseline_off_cmd": "/verif/tools/baseline.sh",
   "source_commits": hooks,
   "add_only": True,
 },
 "engines": [
   {"name": "E1", "path": "/verif/engine + /verif/conc", "serves_properties": [p for p, c in sorted(C.items()) if "E1" in c[1]], "kind_free_text": E1},
   {"name": "E3", "path": "/verif/seq", "serves_properties": [p for p, c in sorted(C.items()) if "E3" in c[1]], "kind_free_text": E3},
   {"name": "E4", "path": "/verif/driver/e4.py", "serves_properties": ["C14"], "kind_free_text": E4},
 ],
 "checks": checks,
 "notes": "All checks rebuild from /repo's working tree (cargo fingerprints through the shadow manifest). exit 0 = held on everything explored (KNOWN-FINDING lines for the entries of /verif/known_findings.json), exit 1 + VIOLATION line, exit 2 = machinery problem. VERIF_SEED only permutes the distribution of work over worker processes; no engine makes a random choice.",
 "not_applicable": [],
}
json.dump(m, open(os.path.join(V, "MANIFEST.json"), "w"), indent=1)
print("wrote MANIFEST.json with", len(checks), "checks")
