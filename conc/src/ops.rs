//! Operation plans and their compact text form (used on the command line and in replay files).
pub const ALL: usize = usize::MAX;
pub const LASTALL: usize = 1 << 20;

#[derive(Clone, Copy, Debug, PartialEq, Eq, Hash)]
pub enum Op {
    /// `next()`
    Next,
    /// `next_id_and_value()`
    IdVal,
    /// `values().next()`
    Vals,
    /// `ids_and_values().next()`
    IdsVals,
    /// `next_chunk(n)`, consume `k` items (ALL = every item), then drop the chunk
    Chunk(usize, usize),
    /// `buffered_iter(n)`, then `j` pulls consuming `k` items of each chunk;
    /// `k >= LASTALL`: `k - LASTALL` items of every chunk but the last pull, whose chunk is consumed completely
    Buf(usize, usize, usize),
    DrainNext,
    DrainIdVal,
    DrainVals,
    DrainIdsVals,
    DrainChunk(usize),
    DrainBuf(usize),
    ForEach(usize),
    EnumForEach(usize),
    Fold(usize),
    Skip,
    Len,
    HasMore,
    /// `clone()` of the shared iterator (kinds that are `Clone`), then the clone is drained privately with `next_id_and_value`
    CloneDrain,
}

impl Op {
    pub fn is_drain(&self) -> bool {
        matches!(self, Op::DrainNext | Op::DrainIdVal | Op::DrainVals | Op::DrainIdsVals | Op::DrainChunk(_) | Op::DrainBuf(_) | Op::ForEach(_) | Op::EnumForEach(_) | Op::Fold(_))
    }
    pub fn show(&self) -> String {
        let k = |k: usize| if k == ALL { String::new() } else if k >= LASTALL { format!(":{}f", k - LASTALL) } else { format!(":{k}") };
        match *self {
            Op::Next => "N".into(),
            Op::IdVal => "I".into(),
            Op::Vals => "V".into(),
            Op::IdsVals => "W".into(),
            Op::Chunk(n, c) => format!("C{n}{}", k(c)),
            Op::Buf(n, j, c) => format!("B{n}x{j}{}", k(c)),
            Op::DrainNext => "DN".into(),
            Op::DrainIdVal => "DI".into(),
            Op::DrainVals => "DV".into(),
            Op::DrainIdsVals => "DW".into(),
            Op::DrainChunk(n) => format!("DC{n}"),
            Op::DrainBuf(n) => format!("DB{n}"),
            Op::ForEach(n) => format!("FE{n}"),
            Op::EnumForEach(n) => format!("EF{n}"),
            Op::Fold(n) => format!("FO{n}"),
            Op::Skip => "S".into(),
            Op::Len => "L".into(),
            Op::HasMore => "H".into(),
            Op::CloneDrain => "K".into(),
        }
    }
    pub fn parse(s: &str) -> Result<Op, String> {
        let num = |x: &str| x.parse::<usize>().map_err(|_| format!("bad number in op '{s}'"));
        let (body, k) = match s.split_once(':') {
            Some((b, k)) => match k.strip_suffix('f') {
                Some(k) => (b, LASTALL + num(k)?),
                None => (b, num(k)?),
            },
            None => (s, ALL),
        };
        Ok(match body {
            "N" => Op::Next,
            "I" => Op::IdVal,
            "V" => Op::Vals,
            "W" => Op::IdsVals,
            "DN" => Op::DrainNext,
            "DI" => Op::DrainIdVal,
            "DV" => Op::DrainVals,
            "DW" => Op::DrainIdsVals,
            "S" => Op::Skip,
            "L" => Op::Len,
            "H" => Op::HasMore,
            "K" => Op::CloneDrain,
            b if b.starts_with("DC") => Op::DrainChunk(num(&b[2..])?),
            b if b.starts_with("DB") => Op::DrainBuf(num(&b[2..])?),
            b if b.starts_with("FE") => Op::ForEach(num(&b[2..])?),
            b if b.starts_with("EF") => Op::EnumForEach(num(&b[2..])?),
            b if b.starts_with("FO") => Op::Fold(num(&b[2..])?),
            b if b.starts_with('C') => Op::Chunk(num(&b[1..])?, k),
            b if b.starts_with('B') => {
                let (n, j) = b[1..].split_once('x').ok_or(format!("bad op '{s}'"))?;
                Op::Buf(num(n)?, num(j)?, k)
            }
            _ => return Err(format!("unknown op '{s}'")),
        })
    }
}

pub type Plan = Vec<Op>;

pub fn show_plans(p: &[Plan]) -> String {
    p.iter().map(|t| t.iter().map(|o| o.show()).collect::<Vec<_>>().join(",")).collect::<Vec<_>>().join("|")
}
pub fn parse_plans(s: &str) -> Result<Vec<Plan>, String> {
    s.split('|').map(|t| if t.is_empty() { Ok(vec![]) } else { t.split(',').map(Op::parse).collect() }).collect()
}

#[derive(Clone, Copy, Debug, PartialEq, Eq, Hash)]
pub enum Final {
    /// drop the iterator
    Drop,
    /// `into_seq_iter()`, collect everything
    Seq,
    /// `into_seq_iter()`, take k items, drop the rest
    SeqK(usize),
}
impl Final {
    pub fn show(&self) -> String {
        match self {
            Final::Drop => "drop".into(),
            Final::Seq => "seq".into(),
            Final::SeqK(k) => format!("seq{k}"),
        }
    }
    pub fn parse(s: &str) -> Result<Final, String> {
        match s {
            "drop" => Ok(Final::Drop),
            "seq" => Ok(Final::Seq),
            x if x.starts_with("seq") => x[3..].parse().map(Final::SeqK).map_err(|_| format!("bad final '{s}'")),
            _ => Err(format!("bad final '{s}'")),
        }
    }
}

#[derive(Clone, Copy, Debug, PartialEq, Eq, Hash)]
pub enum Fault {
    None,
    /// the wrapped iterator's k-th next() panics
    Next(u32),
    /// the k-th Clone::clone panics
    Clone(u32),
    /// the k-th invocation of a for_each / fold closure panics
    Closure(u32),
}
impl Fault {
    pub fn show(&self) -> String {
        match self {
            Fault::None => "none".into(),
            Fault::Next(k) => format!("next:{k}"),
            Fault::Clone(k) => format!("clone:{k}"),
            Fault::Closure(k) => format!("closure:{k}"),
        }
    }
    pub fn parse(s: &str) -> Result<Fault, String> {
        if s == "none" {
            return Ok(Fault::None);
        }
        let (a, k) = s.split_once(':').ok_or(format!("bad fault '{s}'"))?;
        let k: u32 = k.parse().map_err(|_| format!("bad fault '{s}'"))?;
        match a {
            "next" => Ok(Fault::Next(k)),
            "clone" => Ok(Fault::Clone(k)),
            "closure" => Ok(Fault::Closure(k)),
            _ => Err(format!("bad fault '{s}'")),
        }
    }
}
