//! Ledger elements for the sequential explorer (single OS thread).
use std::cell::Cell;

pub const KEY0: usize = 1000;
pub const KSTEP: usize = 37;
pub const NPOS: usize = 48;
const MAGIC: u32 = 0x5eed_e1e3;
const MAGIC_CLONE: u32 = 0xc10e_e1e3;

#[inline]
pub fn key_of(i: usize) -> usize {
    KEY0 + KSTEP * i
}
#[inline]
pub fn pos_of(key: usize) -> Option<usize> {
    if key >= KEY0 && (key - KEY0) % KSTEP == 0 && (key - KEY0) / KSTEP < NPOS {
        Some((key - KEY0) / KSTEP)
    } else {
        None
    }
}

pub struct Ledger {
    pub dropped: [Cell<u8>; NPOS],
    pub clone_made: [Cell<u8>; NPOS],
    pub clone_dropped: [Cell<u8>; NPOS],
    pub garbage: Cell<u32>,
    pub clone_calls: Cell<u32>,
    pub zst_dropped: Cell<u32>,
}

thread_local! {
    pub static LEDGER: Ledger = const { Ledger {
        dropped: [const { Cell::new(0) }; NPOS],
        clone_made: [const { Cell::new(0) }; NPOS],
        clone_dropped: [const { Cell::new(0) }; NPOS],
        garbage: Cell::new(0),
        clone_calls: Cell::new(0),
        zst_dropped: Cell::new(0),
    } };
}

pub fn ledger_reset() {
    LEDGER.with(|l| {
        for i in 0..NPOS {
            l.dropped[i].set(0);
            l.clone_made[i].set(0);
            l.clone_dropped[i].set(0);
        }
        l.garbage.set(0);
        l.clone_calls.set(0);
        l.zst_dropped.set(0);
    });
}
#[inline]
fn bump(c: &Cell<u8>) {
    c.set(c.get().saturating_add(1));
}

/// element with an observable destructor; `PAD` words of payload vary the element size
#[derive(Debug)]
pub struct Elem<const PAD: usize> {
    key: u32,
    magic: u32,
    pad: [u64; PAD],
}

impl<const PAD: usize> Elem<PAD> {
    pub fn new(pos: usize) -> Self {
        Elem { key: key_of(pos) as u32, magic: MAGIC, pad: [pos as u64; PAD] }
    }
    pub fn ghost() -> Self {
        Elem { key: key_of(40) as u32, magic: MAGIC, pad: [40; PAD] }
    }
}

impl<const PAD: usize> Drop for Elem<PAD> {
    fn drop(&mut self) {
        let (key, magic) = (self.key as usize, self.magic);
        let _ = LEDGER.try_with(|l| match (pos_of(key), magic) {
            (Some(p), MAGIC) => bump(&l.dropped[p]),
            (Some(p), MAGIC_CLONE) => bump(&l.clone_dropped[p]),
            _ => l.garbage.set(l.garbage.get() + 1),
        });
        self.magic = 0xdead_dead;
    }
}

impl<const PAD: usize> Clone for Elem<PAD> {
    fn clone(&self) -> Self {
        LEDGER.with(|l| {
            l.clone_calls.set(l.clone_calls.get() + 1);
            match pos_of(self.key as usize) {
                Some(p) if self.magic == MAGIC || self.magic == MAGIC_CLONE => bump(&l.clone_made[p]),
                _ => l.garbage.set(l.garbage.get() + 1),
            }
        });
        Elem { key: self.key, magic: MAGIC_CLONE, pad: self.pad }
    }
}

#[derive(Clone, Copy, Debug, PartialEq, Eq)]
pub struct Seen {
    pub key: usize,
    pub addr: usize,
    pub valid: bool,
    pub is_clone: bool,
}

pub trait Obs {
    fn seen(&self) -> Seen;
}
impl<const PAD: usize> Obs for Elem<PAD> {
    fn seen(&self) -> Seen {
        Seen { key: self.key as usize, addr: 0, valid: (self.magic == MAGIC || self.magic == MAGIC_CLONE) && self.pad.iter().all(|x| pos_of(self.key as usize) == Some(*x as usize)), is_clone: self.magic == MAGIC_CLONE }
    }
}
impl<'a, const PAD: usize> Obs for &'a Elem<PAD> {
    fn seen(&self) -> Seen {
        Seen { key: self.key as usize, addr: *self as *const Elem<PAD> as usize, valid: self.magic == MAGIC, is_clone: false }
    }
}
impl Obs for usize {
    fn seen(&self) -> Seen {
        Seen { key: *self, addr: 0, valid: true, is_clone: false }
    }
}
impl<'a> Obs for &'a usize {
    fn seen(&self) -> Seen {
        Seen { key: **self, addr: *self as *const usize as usize, valid: true, is_clone: false }
    }
}

/// element that owns a heap block of its own (a leaked element leaks memory): used by the C15 suite
#[derive(Debug)]
pub struct BElem {
    key: u32,
    magic: u32,
    heap: Box<u64>,
}
impl BElem {
    pub fn new(pos: usize) -> Self {
        BElem { key: key_of(pos) as u32, magic: MAGIC, heap: Box::new(pos as u64) }
    }
}
impl Drop for BElem {
    fn drop(&mut self) {
        let (key, magic) = (self.key as usize, self.magic);
        let _ = LEDGER.try_with(|l| match (pos_of(key), magic) {
            (Some(p), MAGIC) => bump(&l.dropped[p]),
            (Some(p), MAGIC_CLONE) => bump(&l.clone_dropped[p]),
            _ => l.garbage.set(l.garbage.get() + 1),
        });
        self.magic = 0xdead_dead;
    }
}
impl Obs for BElem {
    fn seen(&self) -> Seen {
        Seen { key: self.key as usize, addr: 0, valid: self.magic == MAGIC && pos_of(self.key as usize) == Some(*self.heap as usize), is_clone: false }
    }
}

/// zero-sized element with an observable destructor (raw-pointer iterators must count, not compare addresses)
#[derive(Debug)]
pub struct Zst;
pub const ZKEY: usize = usize::MAX - 7;
impl Drop for Zst {
    fn drop(&mut self) {
        let _ = LEDGER.try_with(|l| l.zst_dropped.set(l.zst_dropped.get() + 1));
    }
}
impl Obs for Zst {
    fn seen(&self) -> Seen {
        Seen { key: ZKEY, addr: 0, valid: true, is_clone: false }
    }
}
impl<'a> Obs for &'a Zst {
    fn seen(&self) -> Seen {
        Seen { key: ZKEY, addr: 0, valid: true, is_clone: false }
    }
}
