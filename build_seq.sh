#!/bin/bash
cd /verif && CARGO_TARGET_DIR=/verif/target/plain cargo build --offline --profile ${1:-prel} -p seq 2>&1 | grep -E "^(error|warning: unus)" -A14 | head -${2:-100}
