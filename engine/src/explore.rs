//! Exploration of all interleavings of a closed system of coroutine threads.
use crate::exec::{self, mix, Exec, St, Step, Summary, Violation, CANCEL, EXEC, H, IN_CO};
pub use crate::exec::SpinMode;
use std::collections::HashMap;
use std::time::Instant;

/// A closed system: thread bodies plus a final check that runs on the main context after all threads
/// have finished (or the execution was judged HANG / NO-RETURN). `finish` returns an outcome string.
pub struct System {
    pub bodies: Vec<Box<dyn FnOnce()>>,
    pub finish: Box<dyn FnOnce(&ExecResult) -> String>,
}

#[derive(Clone, Debug, PartialEq, Eq)]
pub enum Outcome {
    Done,
    /// unfinished threads, none enabled: every fair continuation spins forever
    Hang(Vec<usize>),
    /// step horizon exceeded
    NoReturn,
}

pub struct ExecResult<'a> {
    pub outcome: &'a Outcome,
    pub trace: &'a [Step],
    pub frozen: Option<usize>,
}

#[derive(Clone)]
pub struct Config {
    pub nthreads: usize,
    /// preemption bound (None = unbounded)
    pub bound: Option<usize>,
    /// stateful exploration with exact state matching
    pub cache: bool,
    pub spin: SpinMode,
    /// adversary: thread `t` executes exactly `k` atomic operations and is never scheduled again
    pub freeze: Option<(usize, u32)>,
    pub horizon: u64,
    /// evaluated whenever no thread is in the middle of a public call
    pub quiescent: Option<fn(&Summary) -> Option<(&'static str, &'static str, String)>>,
    pub max_states: u64,
    pub max_executions: u64,
    pub deadline: Option<Instant>,
    pub verify_hang: bool,
}

impl Config {
    pub fn new(nthreads: usize) -> Self {
        Config {
            nthreads,
            bound: None,
            cache: true,
            spin: SpinMode::Conservative,
            freeze: None,
            horizon: 5000,
            quiescent: None,
            max_states: u64::MAX,
            max_executions: u64::MAX,
            deadline: None,
            verify_hang: true,
        }
    }
}

#[derive(Default, Debug, Clone)]
pub struct Stats {
    pub executions: u64,
    pub complete_executions: u64,
    pub transitions: u64,
    pub states: u64,
    pub pruned: u64,
    pub hangs: u64,
    pub noreturn: u64,
    pub waited_execs: u64,
    pub max_depth: usize,
    pub max_preemptions: usize,
    pub capped: bool,
    pub spin_assumption_failed: bool,
}

struct Choice {
    n_enabled: usize,
    idx: usize,
    pre_before: usize,
    cur_enabled: bool,
    tid: usize,
}

/// What one execution produced.
pub struct RunReport {
    pub schedule: Vec<usize>,
    pub outcome: Outcome,
    pub pruned: bool,
    pub violations: Vec<Violation>,
    pub outcome_str: Option<String>,
    pub trace: Vec<Step>,
    pub waited: bool,
    pub preemptions: usize,
}

pub struct Explorer {
    pub cfg: Config,
    pub stats: Stats,
    seen: HashMap<H, u32>,
}

struct SendBody(Box<dyn FnOnce()>);
unsafe impl Send for SendBody {}

type Gen = generator::Generator<'static, (), ()>;

thread_local! {
    /// finished coroutines are re-initialised instead of mapping a fresh stack for every thread of every execution
    static POOL: std::cell::RefCell<Vec<Gen>> = const { std::cell::RefCell::new(Vec::new()) };
}

fn spawn(body: Box<dyn FnOnce()>) -> Gen {
    let b = SendBody(body);
    let code = move || {
        let b = b;
        if CANCEL.with(|c| c.get()) {
            return;
        }
        // nothing may escape into the coroutine library: cancellation and stray panics end the thread here
        let r = std::panic::catch_unwind(std::panic::AssertUnwindSafe(move || (b.0)()));
        if let Err(p) = r {
            if !p.is::<exec::CancelToken>() {
                exec::violation("ENGINE", "stray-panic", "a panic escaped a thread body (harness must catch subject panics)".to_string());
            }
        }
    };
    match POOL.with(|p| p.borrow_mut().pop()) {
        Some(mut g) => {
            g.init_code(code);
            g
        }
        None => generator::Gn::new_opt(0x6000, code),
    }
}

fn recycle(gens: Vec<Gen>) {
    POOL.with(|p| {
        let mut p = p.borrow_mut();
        for g in gens {
            if g.is_done() && p.len() < 16 {
                p.push(g);
            }
        }
    });
}

/// Runs one empty coroutine so that the coroutine library performs its one-time process setup (it installs
/// its own SIGSEGV / SIGBUS handlers); a harness that wants its own fatal-signal handlers installs them afterwards.
pub fn warmup() {
    let mut g: Gen = generator::Gn::new_opt(0x1000, || {});
    g.resume();
}

fn resume(g: &mut Gen) {
    IN_CO.with(|c| c.set(true));
    g.resume();
    IN_CO.with(|c| c.set(false));
}

impl Explorer {
    pub fn new(cfg: Config) -> Self {
        exec::install_quiet_hook();
        Explorer { cfg, stats: Stats::default(), seen: HashMap::new() }
    }

    /// Explore every interleaving permitted by the configuration. `on_exec` sees every execution.
    pub fn explore(&mut self, setup: &dyn Fn() -> System, on_exec: &mut dyn FnMut(&RunReport)) {
        let mut prefix: Vec<usize> = vec![];
        loop {
            let (choices, report) = self.run_one(setup, &prefix, None);
            self.stats.executions += 1;
            if !report.pruned {
                self.stats.complete_executions += 1;
            }
            if report.waited {
                self.stats.waited_execs += 1;
            }
            on_exec(&report);
            if self.stats.spin_assumption_failed {
                break;
            }
            if self.stats.states > self.cfg.max_states
                || self.stats.executions >= self.cfg.max_executions
                || self.cfg.deadline.map_or(false, |d| Instant::now() > d)
            {
                self.stats.capped = true;
                break;
            }
            // backtrack: deepest choice with an untried alternative within the preemption bound
            let mut next: Option<Vec<usize>> = None;
            for i in (0..choices.len()).rev() {
                let c = &choices[i];
                let mut alt = c.idx + 1;
                while alt < c.n_enabled {
                    let cost = c.pre_before + if c.cur_enabled && alt != 0 { 1 } else { 0 };
                    if self.cfg.bound.map_or(true, |b| cost <= b) {
                        break;
                    }
                    alt += 1;
                }
                if alt < c.n_enabled {
                    let mut p: Vec<usize> = choices[..i].iter().map(|c| c.idx).collect();
                    p.push(alt);
                    next = Some(p);
                    break;
                }
            }
            match next {
                Some(p) => prefix = p,
                None => break,
            }
        }
    }

    /// Re-execute one recorded schedule (sequence of thread ids); after it is exhausted the default
    /// choice is taken. Returns Err on divergence (a scheduled thread is not enabled).
    pub fn replay(&mut self, setup: &dyn Fn() -> System, schedule: &[usize]) -> Result<RunReport, String> {
        let saved = self.cfg.cache;
        self.cfg.cache = false;
        let (_, report) = self.run_one(setup, &[], Some(schedule));
        self.cfg.cache = saved;
        if report.schedule.len() < schedule.len() || report.schedule[..schedule.len()] != *schedule {
            return Err(format!("replay diverged: wanted {:?}, executed {:?}", schedule, report.schedule));
        }
        Ok(report)
    }

    fn state_key(&self, e: &Exec, cur: usize, first: bool, frozen_mask: u32) -> H {
        let mut h: H = if self.cfg.bound.is_some() { mix(7, ((cur as u64) << 1) | first as u64) } else { 7 };
        h = mix(h, frozen_mask as u64);
        for (i, t) in e.ths.iter().enumerate() {
            h = mix(h, t.hist as u64);
            h = mix(h, (t.hist >> 64) as u64);
            let st = match t.st {
                St::Done => 1u64,
                St::Runnable => 2,
                St::Spin => {
                    if e.wait_satisfied(i) {
                        2
                    } else {
                        3
                    }
                }
            };
            h = mix(h, st | (t.call_active as u64) << 8 | ((t.call_ops > 0) as u64) << 9);
            for x in t.vc {
                h = mix(h, x as u64);
            }
            for x in t.acq_pending {
                h = mix(h, x as u64 ^ 0xa);
            }
            for x in t.fence_rel {
                h = mix(h, x as u64 ^ 0xf);
            }
            if self.cfg.freeze.is_some() {
                h = mix(h, t.nops as u64);
            }
        }
        for l in &e.locs {
            h = mix(h, l.val);
            h = mix(h, ((l.writer.0 as u64) << 32) | l.writer.1 as u64);
            if l.weak_failed != 0 {
                h = mix(h, 0x77ea_0000 | l.weak_failed as u64);
            }
            for x in l.rel {
                h = mix(h, x as u64);
            }
        }
        for c in &e.cells {
            h = mix(h, ((c.w.0 as u64) << 32) | c.w.1 as u64 | (c.used as u64) << 63);
            for x in c.wvc {
                h = mix(h, x as u64);
            }
            for x in c.rvc {
                h = mix(h, x as u64);
            }
        }
        for x in e.summary {
            h = mix(h, x);
        }
        h
    }

    fn run_one(&mut self, setup: &dyn Fn() -> System, prefix: &[usize], forced: Option<&[usize]>) -> (Vec<Choice>, RunReport) {
        let n = self.cfg.nthreads;
        EXEC.with(|e| *e.borrow_mut() = Some(Exec::new(n, self.cfg.spin)));
        CANCEL.with(|c| c.set(false));
        exec::UNWINDING.with(|u| *u.borrow_mut() = [false; exec::MAXT]);
        let System { bodies, finish } = setup();
        assert_eq!(bodies.len(), n);
        let mut gens: Vec<Gen> = bodies.into_iter().map(spawn).collect();
        // prime: run every thread up to the announcement of its first atomic operation
        for t in 0..n {
            EXEC.with(|e| e.borrow_mut().as_mut().unwrap().cur = t);
            resume(&mut gens[t]);
            if gens[t].is_done() {
                EXEC.with(|e| e.borrow_mut().as_mut().unwrap().ths[t].st = St::Done);
            }
        }
        let mut choices: Vec<Choice> = vec![];
        let mut pre = 0usize;
        let mut cur = 0usize;
        let mut first = true;
        let mut pruned = false;
        let mut steps: u64 = 0;
        let mut frozen: Option<usize> = None;
        let outcome = loop {
            // freeze adversary
            if let Some((ft, k)) = self.cfg.freeze {
                if frozen.is_none() {
                    let hit = EXEC.with(|e| {
                        let e = e.borrow();
                        let th = &e.as_ref().unwrap().ths[ft];
                        th.st != St::Done && th.nops >= k
                    });
                    if hit {
                        frozen = Some(ft);
                    }
                }
            }
            let (enabled, alldone, quiescent, summary) = EXEC.with(|e| {
                let e = e.borrow();
                let e = e.as_ref().unwrap();
                let mut en: Vec<usize> = Vec::with_capacity(n);
                let mut alldone = true;
                let mut quiescent = true;
                for (i, t) in e.ths.iter().enumerate() {
                    if t.mid_call() {
                        quiescent = false;
                    }
                    if Some(i) == frozen {
                        continue;
                    }
                    match t.st {
                        St::Done => {}
                        St::Runnable => {
                            alldone = false;
                            en.push(i)
                        }
                        St::Spin => {
                            alldone = false;
                            if e.wait_satisfied(i) {
                                en.push(i)
                            }
                        }
                    }
                }
                (en, alldone, quiescent, e.summary)
            });
            if quiescent {
                if let Some(q) = self.cfg.quiescent {
                    if let Some((p, c, m)) = q(&summary) {
                        exec::violation(p, c, m);
                    }
                }
            }
            if alldone {
                break Outcome::Done;
            }
            if enabled.is_empty() {
                let h: Vec<usize> = EXEC.with(|e| {
                    e.borrow().as_ref().unwrap().ths.iter().enumerate().filter(|(i, t)| t.st != St::Done && Some(*i) != frozen).map(|(i, _)| i).collect()
                });
                if self.cfg.verify_hang && !self.verify_hang(&mut gens, &h) {
                    self.stats.spin_assumption_failed = true;
                }
                self.stats.hangs += 1;
                break Outcome::Hang(h);
            }
            if steps > self.cfg.horizon {
                self.stats.noreturn += 1;
                break Outcome::NoReturn;
            }
            let cur_enabled = !first && enabled.contains(&cur);
            let mut order: Vec<usize> = Vec::with_capacity(enabled.len());
            if cur_enabled {
                order.push(cur);
            }
            for &t in &enabled {
                if !(cur_enabled && t == cur) {
                    order.push(t);
                }
            }
            let d = choices.len();
            let idx = if let Some(f) = forced {
                if d < f.len() {
                    match order.iter().position(|&t| t == f[d]) {
                        Some(i) => i,
                        None => break Outcome::Done, // divergence: reported by `replay`
                    }
                } else {
                    0
                }
            } else if d < prefix.len() {
                assert!(prefix[d] < order.len(), "determinism guard: replayed prefix chooses alternative {} of {} at depth {}", prefix[d], order.len(), d);
                prefix[d]
            } else {
                0
            };
            if self.cfg.cache && forced.is_none() && d >= prefix.len() {
                let key = EXEC.with(|e| self.state_key(e.borrow().as_ref().unwrap(), cur, first, frozen.map_or(0, |f| 1 + f as u32)));
                match self.seen.get(&key) {
                    Some(&p) if self.cfg.bound.is_none() || (p as usize) <= pre => {
                        pruned = true;
                        self.stats.pruned += 1;
                        break Outcome::Done;
                    }
                    Some(_) => {
                        self.seen.insert(key, pre as u32);
                    }
                    None => {
                        self.seen.insert(key, pre as u32);
                        self.stats.states += 1;
                    }
                }
            }
            let t = order[idx];
            let is_pre = cur_enabled && t != cur;
            choices.push(Choice { n_enabled: order.len(), idx, pre_before: pre, cur_enabled, tid: t });
            if is_pre {
                pre += 1;
            }
            cur = t;
            first = false;
            EXEC.with(|e| {
                let mut e = e.borrow_mut();
                let e = e.as_mut().unwrap();
                e.cur = t;
                if e.ths[t].st == St::Spin {
                    e.ths[t].st = St::Runnable;
                }
            });
            resume(&mut gens[t]);
            steps += 1;
            self.stats.transitions += 1;
            if gens[t].is_done() {
                EXEC.with(|e| e.borrow_mut().as_mut().unwrap().ths[t].st = St::Done);
            }
        };
        self.stats.max_depth = self.stats.max_depth.max(choices.len());
        self.stats.max_preemptions = self.stats.max_preemptions.max(pre);
        // abandon unfinished coroutines: their next resume unwinds them with the private payload
        CANCEL.with(|c| c.set(true));
        for (t, g) in gens.iter_mut().enumerate() {
            if !g.is_done() {
                EXEC.with(|e| e.borrow_mut().as_mut().unwrap().cur = t);
                resume(g);
            }
        }
        CANCEL.with(|c| c.set(false));
        recycle(gens);
        let mut outcome_str = None;
        if !pruned {
            let trace: Vec<Step> = EXEC.with(|e| e.borrow().as_ref().unwrap().trace.clone());
            let res = ExecResult { outcome: &outcome, trace: &trace, frozen };
            match exec::guarded(|| finish(&res)) {
                Ok(s) => outcome_str = Some(s),
                Err(m) => {
                    exec::violation("PANIC", "final-check-panicked", format!("panic while dropping / converting the iterator after the threads ended: {m}"));
                    outcome_str = Some("panic-in-finish".to_string());
                }
            }
        } else {
            // the system is dropped without its oracle (state already explored)
            let _ = exec::guarded(move || drop(finish));
        }
        let ex = EXEC.with(|e| e.borrow_mut().take().unwrap());
        let waited = ex.ths.iter().any(|t| t.ever_waited);
        let report = RunReport {
            schedule: choices.iter().map(|c| c.tid).collect(),
            outcome,
            pruned,
            violations: ex.violations,
            outcome_str,
            trace: ex.trace,
            waited,
            preemptions: pre,
        };
        (choices, report)
    }

    /// Double check of a HANG verdict: run every blocked thread a few more passes; it must stay in a
    /// read-only cycle (assumption SPIN). Returns false if a blocked thread wrote or finished.
    fn verify_hang(&mut self, gens: &mut [Gen], blocked: &[usize]) -> bool {
        let mut ok = true;
        EXEC.with(|e| e.borrow_mut().as_mut().unwrap().no_block = true);
        for &t in blocked {
            let passes = EXEC.with(|e| {
                let mut e = e.borrow_mut();
                let e = e.as_mut().unwrap();
                e.cur = t;
                e.ths[t].wrote = false;
                e.ths[t].waitset.len().max(1) * 3 + 2
            });
            for _ in 0..passes {
                if gens[t].is_done() {
                    break;
                }
                resume(&mut gens[t]);
            }
            let bad = gens[t].is_done() || EXEC.with(|e| e.borrow().as_ref().unwrap().ths[t].wrote);
            if bad {
                ok = false;
            }
        }
        EXEC.with(|e| e.borrow_mut().as_mut().unwrap().no_block = false);
        ok
    }
}
